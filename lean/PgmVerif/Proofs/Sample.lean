/-
  Proofs/Sample.lean — the law of ancestral (forward) sampling as an explicit finite list of
  weighted outcomes, and of likelihood weighting as outcomes carrying a proposal mass and a weight.
  Every primitive draw "state x of v with probability c.den(row[v := x])" is taken as given (numpy's
  generator is outside the proof); what is proved is that composing the draws in a topological order
  yields exactly the joint distribution.
-/
import PgmVerif.Proofs.VE
import Mathlib.Data.List.Pairwise
namespace PgmVerif
open Factor

/-- a finite law: outcomes (partial rows, as assignments) with their masses -/
abbrev Law := List (Asg × Rat)

/-- draw variable `v` from CPD `c` given the row so far: every outcome branches into the `K v`
    states of `v`, its mass multiplied by the CPD entry of the extended row -/
def extendLaw (K : Var → Nat) (v : Var) (c : Factor) (d : Law) : Law :=
  d.flatMap (fun o => (List.range (K v)).map (fun x => (upd o.1 v x, o.2 * c.den (upd o.1 v x))))

/-- ancestral sampling along the list `L` of (variable, CPD) pairs -/
def forwardLaw (K : Var → Nat) : List (Var × Factor) → Law → Law
  | [], d => d
  | p :: rest, d => forwardLaw K rest (extendLaw K p.1 p.2 d)

/-- `L` is in topological order: the CPD of a variable mentions no variable drawn later, and no
    variable is drawn twice -/
def Topo : List (Var × Factor) → Prop
  | [] => True
  | p :: rest => (∀ q ∈ rest, q.1 ∉ p.2.scope ∧ q.1 ≠ p.1) ∧ Topo rest

theorem mem_extendLaw {K : Var → Nat} {v : Var} {c : Factor} {d : Law} {o : Asg × Rat} :
    o ∈ extendLaw K v c d ↔ ∃ o0 ∈ d, ∃ x, x < K v ∧ o = (upd o0.1 v x, o0.2 * c.den (upd o0.1 v x)) := by
  unfold extendLaw
  simp only [List.mem_flatMap, List.mem_map, List.mem_range]
  constructor
  · rintro ⟨o0, h0, x, hx, e⟩; exact ⟨o0, h0, x, hx, e.symm⟩
  · rintro ⟨o0, h0, x, hx, e⟩; exact ⟨o0, h0, x, hx, e.symm⟩

/-- **mass**: every outcome of forward sampling extends an initial outcome, leaves every variable
    that is not drawn untouched, and has the initial mass times the product of ALL CPD entries at
    the final row -/
theorem forwardLaw_mass (K : Var → Nat) : ∀ (L : List (Var × Factor)) (d : Law), Topo L →
    ∀ o ∈ forwardLaw K L d, ∃ o0 ∈ d, o.2 = o0.2 * jointDen (L.map Prod.snd) o.1 ∧
      (∀ w, w ∉ L.map Prod.fst → o.1 w = o0.1 w)
  | [], d, _, o, ho => ⟨o, ho, by simp [jointDen_nil], fun _ _ => rfl⟩
  | p :: rest, d, ⟨hp, hrest⟩, o, ho => by
    obtain ⟨o1, h1, hm, hagree⟩ := forwardLaw_mass K rest _ hrest o ho
    obtain ⟨o0, h0, x, _, e⟩ := mem_extendLaw.mp h1
    refine ⟨o0, h0, ?_, ?_⟩
    · have hden : p.2.den o.1 = p.2.den o1.1 := by
        apply den_dependsOn p.2
        intro w hw
        apply hagree w
        intro hmem
        obtain ⟨q, hq, hqw⟩ := List.mem_map.mp hmem
        exact (hp q hq).1 (hqw ▸ hw)
      rw [hm, List.map_cons, jointDen_cons, hden, e]
      ring
    · intro w hw
      have hw1 : w ≠ p.1 := fun e' => hw (by simp [e'])
      have hw2 : w ∉ rest.map Prod.fst := fun h' => hw (by simp only [List.map_cons]; exact List.mem_cons_of_mem _ h')
      rw [hagree w hw2, e]
      simp [upd, hw1]

/-- **completeness**: every row that gives each drawn variable one of its states (and agrees with
    an initial outcome elsewhere) is an outcome -/
theorem forwardLaw_complete (K : Var → Nat) : ∀ (L : List (Var × Factor)) (d : Law), Topo L →
    ∀ o0 ∈ d, ∀ b : Asg, (∀ w, w ∉ L.map Prod.fst → b w = o0.1 w) → (∀ w ∈ L.map Prod.fst, b w < K w) →
    ∃ q, (b, q) ∈ forwardLaw K L d
  | [], d, _, o0, h0, b, hb, _ => by
    have : b = o0.1 := funext (fun w => hb w (by simp))
    exact ⟨o0.2, by simpa [forwardLaw, this] using h0⟩
  | p :: rest, d, ⟨hp, hrest⟩, o0, h0, b, hb, hK => by
    have hx : b p.1 < K p.1 := hK p.1 (by simp)
    have h1 : (upd o0.1 p.1 (b p.1), o0.2 * p.2.den (upd o0.1 p.1 (b p.1))) ∈ extendLaw K p.1 p.2 d :=
      mem_extendLaw.mpr ⟨o0, h0, b p.1, hx, rfl⟩
    apply forwardLaw_complete K rest _ hrest _ h1 b
    · intro w hw
      by_cases e : w = p.1
      · simp [upd, e]
      · have : w ∉ (p :: rest).map Prod.fst := by
          simp only [List.map_cons, List.mem_cons, not_or]; exact ⟨e, hw⟩
        simp [upd, e, hb w this]
    · intro w hw
      exact hK w (by simp only [List.map_cons]; exact List.mem_cons_of_mem _ hw)

/-- outcomes are pairwise different on some variable that will not be drawn any more -/
def SepOff (C : List Var) (d : Law) : Prop :=
  d.Pairwise (fun o1 o2 => ∃ w, w ∉ C ∧ o1.1 w ≠ o2.1 w)

theorem extendLaw_sep (K : Var → Nat) (v : Var) (c : Factor) (C : List Var) (hv : v ∉ C) (d : Law)
    (hd : SepOff (v :: C) d) : SepOff C (extendLaw K v c d) := by
  unfold SepOff extendLaw
  rw [List.pairwise_flatMap]
  constructor
  · intro o _
    rw [List.pairwise_map]
    apply List.Pairwise.imp _ (List.nodup_range (n := K v))
    intro x y hxy
    exact ⟨v, hv, by simp [upd, hxy]⟩
  · apply List.Pairwise.imp _ hd
    rintro o1 o2 ⟨w, hw, hne⟩ a ha b hb
    obtain ⟨x, _, rfl⟩ := List.mem_map.mp ha
    obtain ⟨y, _, rfl⟩ := List.mem_map.mp hb
    have hwv : w ≠ v := fun e => hw (by simp [e])
    exact ⟨w, fun h => hw (List.mem_cons_of_mem _ h), by simp [upd, hwv, hne]⟩

theorem forwardLaw_sep (K : Var → Nat) : ∀ (L : List (Var × Factor)) (d : Law), Topo L →
    SepOff (L.map Prod.fst) d → SepOff [] (forwardLaw K L d)
  | [], _, _, h => h
  | p :: rest, d, ⟨hp, hrest⟩, h => by
    apply forwardLaw_sep K rest _ hrest
    apply extendLaw_sep K p.1 p.2 _ _ d h
    intro hmem
    obtain ⟨q, hq, hqv⟩ := List.mem_map.mp hmem
    exact (hp q hq).2 hqv

/-- **no row occurs twice** among the outcomes of forward sampling from a single start -/
theorem forwardLaw_nodup (K : Var → Nat) (L : List (Var × Factor)) (a0 : Asg) (hL : Topo L) :
    ((forwardLaw K L [(a0, 1)]).map Prod.fst).Nodup := by
  have h := forwardLaw_sep K L [(a0, 1)] hL (by simp [SepOff])
  unfold SepOff at h
  rw [List.Nodup, List.pairwise_map]
  apply List.Pairwise.imp _ h
  rintro o1 o2 ⟨w, _, hne⟩ e
  exact hne (by rw [e])

/-! ### likelihood weighting: evidence variables are fixed, their CPD entries go into the weight -/

/-- outcomes of likelihood weighting: (row, proposal mass, weight) -/
abbrev WLaw := List (Asg × Rat × Rat)

def lwStep (K : Var → Nat) (ev : Var → Option Nat) (v : Var) (c : Factor) (d : WLaw) : WLaw :=
  match ev v with
  | some e => d.map (fun o => (upd o.1 v e, o.2.1, o.2.2 * c.den (upd o.1 v e)))
  | none => d.flatMap (fun o => (List.range (K v)).map
      (fun x => (upd o.1 v x, o.2.1 * c.den (upd o.1 v x), o.2.2)))

def lwLaw (K : Var → Nat) (ev : Var → Option Nat) : List (Var × Factor) → WLaw → WLaw
  | [], d => d
  | p :: rest, d => lwLaw K ev rest (lwStep K ev p.1 p.2 d)

/-- **likelihood weighting**: every outcome carries the evidence, its weight is the product of the
    evidence variables' CPD entries at the sampled row, its proposal mass the product of the other
    CPD entries, and so  mass × weight = joint(row) -/
theorem lwLaw_spec (K : Var → Nat) (ev : Var → Option Nat) : ∀ (L : List (Var × Factor)) (d : WLaw), Topo L →
    ∀ o ∈ lwLaw K ev L d, ∃ o0 ∈ d,
      o.2.2 = o0.2.2 * jointDen ((L.filter (fun p => (ev p.1).isSome)).map Prod.snd) o.1 ∧
      o.2.1 = o0.2.1 * jointDen ((L.filter (fun p => !(ev p.1).isSome)).map Prod.snd) o.1 ∧
      (∀ w, w ∉ L.map Prod.fst → o.1 w = o0.1 w) ∧
      (∀ p ∈ L, ∀ e, ev p.1 = some e → o.1 p.1 = e)
  | [], d, _, o, ho => ⟨o, ho, by simp [jointDen_nil], by simp [jointDen_nil], fun _ _ => rfl, by simp⟩
  | p :: rest, d, ⟨hp, hrest⟩, o, ho => by
    obtain ⟨o1, h1, hw, hm, hagree, hev⟩ := lwLaw_spec K ev rest _ hrest o ho
    have hden : ∀ a : Asg, (∀ w, w ∉ rest.map Prod.fst → o.1 w = a w) → p.2.den o.1 = p.2.den a := by
      intro a ha
      apply den_dependsOn p.2
      intro w hw'
      apply ha w
      intro hmem
      obtain ⟨q, hq, hqw⟩ := List.mem_map.mp hmem
      exact (hp q hq).1 (hqw ▸ hw')
    have hpv : p.1 ∉ rest.map Prod.fst := by
      intro hmem
      obtain ⟨q, hq, hqv⟩ := List.mem_map.mp hmem
      exact (hp q hq).2 hqv
    have hoff : ∀ (a0 : Asg) (x : Nat), o1.1 = upd a0 p.1 x →
        ∀ w, w ∉ (p :: rest).map Prod.fst → o.1 w = a0 w := by
      intro a0 x e w hw'
      have hw1 : w ≠ p.1 := fun e' => hw' (by simp [e'])
      have hw2 : w ∉ rest.map Prod.fst := fun h' => hw' (by simp only [List.map_cons]; exact List.mem_cons_of_mem _ h')
      rw [hagree w hw2, e]; simp [upd, hw1]
    unfold lwStep at h1
    cases hE : ev p.1 with
    | some e =>
      rw [hE] at h1
      obtain ⟨o0, h0, rfl⟩ := List.mem_map.mp h1
      refine ⟨o0, h0, ?_, ?_, hoff o0.1 e rfl, ?_⟩
      · simp only [List.filter_cons, hE, Option.isSome_some, if_true, List.map_cons, jointDen_cons]
        rw [hw, hden _ hagree]; ring
      · simp only [List.filter_cons, hE, Option.isSome_some, Bool.not_true, Bool.false_eq_true, if_false]
        exact hm
      · intro q hq e' he'
        rcases List.mem_cons.mp hq with rfl | hq
        · rw [hE] at he'; cases he'
          rw [hagree _ hpv]; simp [upd]
        · exact hev q hq e' he'
    | none =>
      rw [hE] at h1
      obtain ⟨o0, h0, hx⟩ := List.mem_flatMap.mp h1
      obtain ⟨x, _, rfl⟩ := List.mem_map.mp hx
      refine ⟨o0, h0, ?_, ?_, hoff o0.1 x rfl, ?_⟩
      · simp only [List.filter_cons, hE, Option.isSome_none, Bool.false_eq_true, if_false]
        exact hw
      · simp only [List.filter_cons, hE, Option.isSome_none, Bool.not_false, if_true, List.map_cons, jointDen_cons]
        rw [hm, hden _ hagree]; ring
      · intro q hq e' he'
        rcases List.mem_cons.mp hq with rfl | hq
        · rw [hE] at he'; cases he'
        · exact hev q hq e' he'

end PgmVerif
