/-
  Proofs/Closure.lean — fuel-bounded saturation reaches exactly the least set closed under a
  pointwise step function (F-Closure of DESIGN.md).  Used by ancestors / descendants, the
  (node, direction) reachability of d-separation, and the semi-graphoid closure.
-/
import PgmVerif.Model.Graph
namespace PgmVerif

section
variable {α : Type} [DecidableEq α]

/-- inductive closure of `S0` under `step` -/
inductive Gen (step : α → List α) (S0 : List α) : α → Prop
  | base {x} : x ∈ S0 → Gen step S0 x
  | step {x y} : Gen step S0 y → x ∈ step y → Gen step S0 x

theorem mem_newElems (next : List α → List α) (S : List α) (x : α) :
    x ∈ newElems next S ↔ x ∈ next S ∧ x ∉ S := by
  unfold newElems
  rw [List.mem_eraseDups, List.mem_filter]
  simp

theorem countP_lt_of_imp (l : List α) (p q : α → Bool) (h : ∀ x, p x = true → q x = true)
    (y : α) (hy : y ∈ l) (hq : q y = true) (hp : p y = false) : l.countP p < l.countP q := by
  induction l with
  | nil => cases hy
  | cons u l ih =>
    have hle : l.countP p ≤ l.countP q := List.countP_mono_left (fun x _ => h x)
    simp only [List.countP_cons]
    rcases List.mem_cons.mp hy with rfl | hin
    · simp [hq, hp]; omega
    · have := ih hin
      cases hpu : p u
      · cases hqu : q u <;> simp <;> omega
      · simp [h u hpu]; omega

def missing (U S : List α) : Nat := U.countP (fun x => decide (x ∉ S))

theorem missing_le (U S : List α) : missing U S ≤ U.length := List.countP_le_length

theorem missing_lt (U S T : List α) (h : ∀ x, x ∈ S → x ∈ T) (y : α)
    (hyU : y ∈ U) (hyS : y ∉ S) (hyT : y ∈ T) : missing U T < missing U S := by
  unfold missing
  apply countP_lt_of_imp U _ _ _ y hyU
  · simp [hyS]
  · simp [hyT]
  · intro x hx; simp only [decide_eq_true_eq] at hx ⊢; exact fun hs => hx (h x hs)

def Closed (next : List α → List α) (S : List α) : Prop := ∀ x, x ∈ next S → x ∈ S

theorem newElems_nil_iff (next : List α → List α) (S : List α) :
    newElems next S = [] ↔ Closed next S := by
  unfold Closed
  constructor
  · intro h x hx
    by_cases hs : x ∈ S
    · exact hs
    · have : x ∈ newElems next S := (mem_newElems next S x).mpr ⟨hx, hs⟩
      rw [h] at this; cases this
  · intro h
    apply List.eq_nil_iff_forall_not_mem.mpr
    intro x hx
    have := (mem_newElems next S x).mp hx
    exact this.2 (h x this.1)

theorem subset_saturate (next : List α → List α) : ∀ (fuel : Nat) (S : List α) (x : α),
    x ∈ S → x ∈ saturate next fuel S
  | 0, _, _, h => h
  | n+1, S, x, h => by
    simp only [saturate]
    split
    · exact h
    · exact subset_saturate next n _ x (List.mem_append_left _ h)

/-- with enough fuel (≥ number of universe elements still missing) the result is closed -/
theorem saturate_closed (next : List α → List α) (U : List α)
    (hU : ∀ S, (∀ x, x ∈ S → x ∈ U) → ∀ x, x ∈ next S → x ∈ U) :
    ∀ (fuel : Nat) (S : List α), (∀ x, x ∈ S → x ∈ U) → missing U S ≤ fuel →
      Closed next (saturate next fuel S) := by
  intro fuel
  induction fuel with
  | zero =>
    intro S hS hm
    simp only [saturate]
    intro x hx
    have hxU := hU S hS x hx
    by_cases hxS : x ∈ S
    · exact hxS
    · have : 0 < missing U S := by
        unfold missing
        apply List.countP_pos_iff.mpr
        exact ⟨x, hxU, by simp [hxS]⟩
      omega
  | succ n ih =>
    intro S hS hm
    simp only [saturate]
    split
    · next hnil => exact (newElems_nil_iff next S).mp hnil
    · next y ys hcons =>
      have hy : y ∈ newElems next S := by rw [hcons]; exact List.mem_cons_self
      have hsub : ∀ x, x ∈ newElems next S → x ∈ U := fun x hx =>
        hU S hS x ((mem_newElems next S x).mp hx).1
      have hS' : ∀ x, x ∈ S ++ (y :: ys) → x ∈ U := by
        intro x hx
        rcases List.mem_append.mp hx with h | h
        · exact hS x h
        · exact hsub x (hcons ▸ h)
      apply ih _ hS'
      have hyS : y ∉ S := ((mem_newElems next S y).mp hy).2
      have := missing_lt U S (S ++ (y :: ys)) (fun x hx => List.mem_append_left _ hx) y
        (hsub y hy) hyS (List.mem_append_right _ List.mem_cons_self)
      omega

/-- everything the saturation adds is derivable (pointwise step functions) -/
theorem saturate_sound (step : α → List α) (S0 : List α) : ∀ (fuel : Nat) (S : List α),
    (∀ x, x ∈ S → Gen step S0 x) → ∀ x, x ∈ saturate (fun T => T.flatMap step) fuel S → Gen step S0 x
  | 0, _, h, x, hx => h x hx
  | n+1, S, h, x, hx => by
    simp only [saturate] at hx
    split at hx
    · exact h x hx
    · next y ys hcons =>
      apply saturate_sound step S0 n _ _ x hx
      intro z hz
      rcases List.mem_append.mp hz with hz | hz
      · exact h z hz
      · have : z ∈ newElems (fun T => T.flatMap step) S := by rw [hcons]; exact hz
        obtain ⟨w, hw, hzw⟩ := List.mem_flatMap.mp ((mem_newElems _ S z).mp this).1
        exact Gen.step (h w hw) hzw

/-- **saturation = least fixed point**: with a finite universe that contains the seeds and is
    closed under `step`, and fuel ≥ |universe|, membership in the result is derivability -/
theorem saturate_exact (step : α → List α) (U S0 : List α) (fuel : Nat)
    (hS0 : ∀ x, x ∈ S0 → x ∈ U) (hstep : ∀ y, y ∈ U → ∀ x, x ∈ step y → x ∈ U)
    (hfuel : U.length ≤ fuel) (x : α) :
    x ∈ saturate (fun T => T.flatMap step) fuel S0 ↔ Gen step S0 x := by
  constructor
  · exact saturate_sound step S0 fuel S0 (fun y hy => Gen.base hy) x
  · intro hg
    have hcl := saturate_closed (fun T => T.flatMap step) U
      (fun S hS z hz => by
        obtain ⟨w, hw, hzw⟩ := List.mem_flatMap.mp hz
        exact hstep w (hS w hw) z hzw)
      fuel S0 hS0 (Nat.le_trans (missing_le U S0) hfuel)
    induction hg with
    | base h => exact subset_saturate _ fuel S0 _ h
    | step _ hxy ih => exact hcl _ (List.mem_flatMap.mpr ⟨_, ih, hxy⟩)

end
/-- a graph whose edges stay inside its node list -/
def DG.WFG (g : DG) : Prop := ∀ e ∈ g.edges, e.1 ∈ g.nodes ∧ e.2 ∈ g.nodes

theorem DG.mem_parents (g : DG) (u v : Var) : u ∈ g.parents v ↔ (u, v) ∈ g.edges := by
  unfold DG.parents
  simp only [List.mem_map, List.mem_filter]
  constructor
  · rintro ⟨e, ⟨he, h2⟩, rfl⟩
    have : e.2 = v := by simpa using h2
    rw [← this]; exact he
  · intro h; exact ⟨(u, v), ⟨h, by simp⟩, rfl⟩

theorem DG.mem_children (g : DG) (u v : Var) : v ∈ g.children u ↔ (u, v) ∈ g.edges := by
  unfold DG.children
  simp only [List.mem_map, List.mem_filter]
  constructor
  · rintro ⟨e, ⟨he, h2⟩, rfl⟩
    have : e.1 = u := by simpa using h2
    rw [← this]; exact he
  · intro h; exact ⟨(u, v), ⟨h, by simp⟩, rfl⟩


end PgmVerif
