/-
  Proofs/Factor.lean — the `den_*` lemma family: every factor operation of the model has its
  textbook pointwise meaning at every in-range assignment, for every axis order.
-/
import PgmVerif.Model.Factor
import PgmVerif.Proofs.Layout
import Mathlib.Tactic.Ring
import Mathlib.Algebra.Order.Field.Rat
namespace PgmVerif

theorem inRange_map (K : Var → Nat) (a : Asg) (ha : Bounded K a) :
    ∀ vs : List Var, InRange (vs.map K) (vs.map a)
  | [] => trivial
  | v :: vs => ⟨ha v, inRange_map K a ha vs⟩

theorem overrideL_congr (a b : Asg) (w : Var) : ∀ (vs : List Var) (xs : List Nat),
    (w ∉ vs → a w = b w) → xs.length = vs.length → overrideL a vs xs w = overrideL b vs xs w
  | [], [], h, _ => by simpa [overrideL] using h
  | [], _ :: _, _, hl => by simp at hl
  | _ :: _, [], _, hl => by simp at hl
  | v :: vs, x :: xs, h, hl => by
    simp only [overrideL]
    by_cases e : w = v
    · simp [e]
    · simp only [e, if_false]
      apply overrideL_congr a b w vs xs _ (by simpa using hl)
      intro hw
      exact h (by simp [e, hw])

theorem overrideL_mem (a : Asg) (w : Var) : ∀ (vs : List Var) (xs : List Nat) (b : Asg),
    w ∈ vs → xs.length = vs.length → overrideL a vs xs w = overrideL b vs xs w := by
  intro vs xs b hw hl
  exact overrideL_congr a b w vs xs (fun h => absurd hw h) hl

theorem zip_map_eq (K : Var → Nat) : ∀ vs : List Var, vs.zip (vs.map K) = vs.map (fun v => (v, K v))
  | [] => rfl
  | v :: vs => by simp [zip_map_eq K vs]

namespace Factor

/-- `fn` only looks at the variables in `scope` -/
def DependsOn (fn : Asg → Rat) (scope : List Var) : Prop :=
  ∀ a b : Asg, (∀ v ∈ scope, a v = b v) → fn a = fn b

theorem den_dependsOn (f : Factor) : DependsOn f.den f.scope := by
  intro a b h
  unfold den
  rw [List.map_congr_left h]

theorem DependsOn.mono {fn : Asg → Rat} {s t : List Var} (h : DependsOn fn s)
    (hst : ∀ v ∈ s, v ∈ t) : DependsOn fn t :=
  fun a b hab => h a b (fun v hv => hab v (hst v hv))

theorem den_tabulate (scope : List Var) (card : List Nat) (fn : Asg → Rat) (a : Asg)
    (h : InRange card (scope.map a)) :
    (tabulate scope card fn).den a = fn (asgOf scope card (ravel card (scope.map a))) := by
  have hlt := ravel_lt card _ h
  simp [den, tabulate, Array.getD, hlt]

theorem den_tabulate' (scope : List Var) (card : List Nat) (fn : Asg → Rat) (a : Asg)
    (h : InRange card (scope.map a)) (hd : DependsOn fn scope) :
    (tabulate scope card fn).den a = fn a := by
  rw [den_tabulate scope card fn a h]
  exact hd _ _ (fun v hv => asgOf_ravel scope card a h v hv)

theorem wf_tabulate (K : Var → Nat) (scope : List Var) (fn : Asg → Rat) (hn : scope.Nodup) :
    (tabulate scope (scope.map K) fn).WF K := by
  refine ⟨hn, rfl, ?_⟩
  simp [tabulate]

/-- the workhorse: a table built over a consistent scope denotes its defining function -/
theorem den_tabulateK (K : Var → Nat) (scope : List Var) (fn : Asg → Rat) (a : Asg)
    (ha : Bounded K a) (hd : DependsOn fn scope) :
    (tabulate scope (scope.map K) fn).den a = fn a :=
  den_tabulate' scope _ fn a (inRange_map K a ha scope) hd

/-! ### scope bookkeeping under `WF K` -/

theorem inside_eq (K : Var → Nat) (f : Factor) (hf : f.WF K) (vs : List Var) :
    f.inside vs = (f.scope.filter (fun v => vs.contains v)).map (fun v => (v, K v)) := by
  unfold inside
  rw [hf.2.1, zip_map_eq, List.filter_map]
  rfl

theorem outside_eq (K : Var → Nat) (f : Factor) (hf : f.WF K) (vs : List Var) :
    f.outside vs = (f.scope.filter (fun v => !vs.contains v)).map (fun v => (v, K v)) := by
  unfold outside
  rw [hf.2.1, zip_map_eq, List.filter_map]
  rfl

theorem extra_eq (K : Var → Nat) (f g : Factor) (hg : g.WF K) :
    extra f g = (g.scope.filter (fun v => !f.scope.contains v)).map (fun v => (v, K v)) := by
  unfold extra
  rw [hg.2.1, zip_map_eq, List.filter_map]
  rfl


/-! ### binary operations -/

/-- scope of `combine`: f's axes then g's new ones -/
def unionScope (f g : Factor) : List Var :=
  f.scope ++ g.scope.filter (fun v => !f.scope.contains v)

theorem mem_unionScope (f g : Factor) (v : Var) :
    v ∈ unionScope f g ↔ v ∈ f.scope ∨ v ∈ g.scope := by
  unfold unionScope
  simp only [List.mem_append, List.mem_filter]
  constructor
  · rintro (h | ⟨h, _⟩)
    · exact Or.inl h
    · exact Or.inr h
  · rintro (h | h)
    · exact Or.inl h
    · by_cases hv : v ∈ f.scope
      · exact Or.inl hv
      · exact Or.inr ⟨h, by simpa using hv⟩

theorem nodup_unionScope (f g : Factor) (hf : f.scope.Nodup) (hg : g.scope.Nodup) :
    (unionScope f g).Nodup := by
  unfold unionScope
  refine List.nodup_append.mpr ⟨hf, hg.filter _, ?_⟩
  intro a ha b hb e
  subst e
  have := (List.mem_filter.mp hb).2
  simp at this
  exact this ha

theorem combine_eq (K : Var → Nat) (op : Rat → Rat → Rat) (f g : Factor) (hf : f.WF K) (hg : g.WF K) :
    combine op f g = tabulate (unionScope f g) ((unionScope f g).map K)
      (fun a => op (f.den a) (g.den a)) := by
  unfold combine unionScope
  rw [extra_eq K f g hg]
  simp only [List.map_map, List.map_append, hf.2.1]
  have h1 : ((fun x : Var × Nat => x.1) ∘ fun v => (v, K v)) = id := by funext v; rfl
  have h2 : ((fun x : Var × Nat => x.2) ∘ fun v => (v, K v)) = K := by funext v; rfl
  rw [h1, h2, List.map_id]

theorem wf_combine (K : Var → Nat) (op : Rat → Rat → Rat) (f g : Factor) (hf : f.WF K) (hg : g.WF K) :
    (combine op f g).WF K := by
  rw [combine_eq K op f g hf hg]
  exact wf_tabulate K _ _ (nodup_unionScope f g hf.1 hg.1)

theorem scope_combine (K : Var → Nat) (op : Rat → Rat → Rat) (f g : Factor) (hf : f.WF K) (hg : g.WF K) :
    (combine op f g).scope = unionScope f g := by
  rw [combine_eq K op f g hf hg]; rfl

theorem den_combine (K : Var → Nat) (op : Rat → Rat → Rat) (f g : Factor) (hf : f.WF K) (hg : g.WF K)
    (a : Asg) (ha : Bounded K a) :
    (combine op f g).den a = op (f.den a) (g.den a) := by
  rw [combine_eq K op f g hf hg]
  apply den_tabulateK K _ _ a ha
  intro x y hxy
  have h1 : f.den x = f.den y := den_dependsOn f x y
    (fun v hv => hxy v ((mem_unionScope f g v).mpr (Or.inl hv)))
  have h2 : g.den x = g.den y := den_dependsOn g x y
    (fun v hv => hxy v ((mem_unionScope f g v).mpr (Or.inr hv)))
  simp only [h1, h2]

theorem den_product (K : Var → Nat) (f g : Factor) (hf : f.WF K) (hg : g.WF K)
    (a : Asg) (ha : Bounded K a) : (product f g).den a = f.den a * g.den a :=
  den_combine K _ f g hf hg a ha

theorem den_add (K : Var → Nat) (f g : Factor) (hf : f.WF K) (hg : g.WF K)
    (a : Asg) (ha : Bounded K a) : (add f g).den a = f.den a + g.den a :=
  den_combine K _ f g hf hg a ha

theorem wf_product (K : Var → Nat) (f g : Factor) (hf : f.WF K) (hg : g.WF K) : (product f g).WF K :=
  wf_combine K _ f g hf hg

theorem wf_add (K : Var → Nat) (f g : Factor) (hf : f.WF K) (hg : g.WF K) : (add f g).WF K :=
  wf_combine K _ f g hf hg

theorem wf_divide (K : Var → Nat) (f g : Factor) (hf : f.WF K) : (divide f g).WF K := by
  unfold divide
  rw [hf.2.1]
  exact wf_tabulate K _ _ hf.1

/-- division: pointwise quotient, with 0/0 = 0 (and x/0 reported separately as +inf) -/
theorem den_divide (K : Var → Nat) (f g : Factor) (hf : f.WF K)
    (hsub : ∀ v ∈ g.scope, v ∈ f.scope) (a : Asg) (ha : Bounded K a) :
    (divide f g).den a = if g.den a = 0 then 0 else f.den a / g.den a := by
  unfold divide
  rw [hf.2.1]
  apply den_tabulateK K _ _ a ha
  intro x y hxy
  have h1 : f.den x = f.den y := den_dependsOn f x y hxy
  have h2 : g.den x = g.den y := den_dependsOn g x y (fun v hv => hxy v (hsub v hv))
  simp only [h1, h2]


/-! ### marginalize / maximize / reduce -/

theorem pair_fst (K : Var → Nat) : ((fun x : Var × Nat => x.1) ∘ fun v => (v, K v)) = id := by
  funext v; rfl
theorem pair_snd (K : Var → Nat) : ((fun x : Var × Nat => x.2) ∘ fun v => (v, K v)) = K := by
  funext v; rfl

/-- variables of `f` that are eliminated / kept by an operation on `vs` -/
def elimScope (f : Factor) (vs : List Var) : List Var := f.scope.filter (fun v => vs.contains v)
def keepScope (f : Factor) (vs : List Var) : List Var := f.scope.filter (fun v => !vs.contains v)

theorem mem_keep_or_elim (f : Factor) (vs : List Var) (v : Var) (hv : v ∈ f.scope) :
    v ∈ elimScope f vs ∨ v ∈ keepScope f vs := by
  unfold elimScope keepScope
  simp only [List.mem_filter]
  by_cases h : vs.contains v = true
  · exact Or.inl ⟨hv, h⟩
  · exact Or.inr ⟨hv, by simpa using h⟩

theorem overStates_congr (f : Factor) (vs : List Var) (I : List Var) (cards : List Nat)
    (hI : ∀ v ∈ f.scope, v ∉ I → v ∈ keepScope f vs) (hc : cards.length = I.length)
    (x y : Asg) (hxy : ∀ v ∈ keepScope f vs, x v = y v) :
    overStates I cards x f.den = overStates I cards y f.den := by
  unfold overStates
  apply List.map_congr_left
  intro i _
  apply den_dependsOn f
  intro v hv
  apply overrideL_congr x y v I _ _ (by rw [unravel_length, hc])
  intro hvI
  exact hxy v (hI v hv hvI)

theorem elim_keep_disj (f : Factor) (vs : List Var) (v : Var) (hv : v ∈ f.scope)
    (h : v ∉ elimScope f vs) : v ∈ keepScope f vs := by
  rcases mem_keep_or_elim f vs v hv with h1 | h1
  · exact absurd h1 h
  · exact h1

theorem marginalize_eq (K : Var → Nat) (f : Factor) (hf : f.WF K) (vs : List Var) :
    marginalize f vs = tabulate (keepScope f vs) ((keepScope f vs).map K)
      (fun a => sumR (overStates (elimScope f vs) ((elimScope f vs).map K) a f.den)) := by
  unfold marginalize keepScope elimScope
  rw [inside_eq K f hf, outside_eq K f hf]
  simp only [List.map_map, pair_fst, pair_snd, List.map_id]

theorem maximize_eq (K : Var → Nat) (f : Factor) (hf : f.WF K) (vs : List Var) :
    maximize f vs = tabulate (keepScope f vs) ((keepScope f vs).map K)
      (fun a => maxR (overStates (elimScope f vs) ((elimScope f vs).map K) a f.den)) := by
  unfold maximize keepScope elimScope
  rw [inside_eq K f hf, outside_eq K f hf]
  simp only [List.map_map, pair_fst, pair_snd, List.map_id]

theorem wf_marginalize (K : Var → Nat) (f : Factor) (hf : f.WF K) (vs : List Var) :
    (marginalize f vs).WF K := by
  rw [marginalize_eq K f hf]
  exact wf_tabulate K _ _ (hf.1.filter _)

theorem wf_maximize (K : Var → Nat) (f : Factor) (hf : f.WF K) (vs : List Var) :
    (maximize f vs).WF K := by
  rw [maximize_eq K f hf]
  exact wf_tabulate K _ _ (hf.1.filter _)

theorem scope_marginalize (K : Var → Nat) (f : Factor) (hf : f.WF K) (vs : List Var) :
    (marginalize f vs).scope = keepScope f vs := by
  rw [marginalize_eq K f hf]; rfl

/-- marginalisation sums the table over every joint state of the eliminated variables -/
theorem den_marginalize (K : Var → Nat) (f : Factor) (hf : f.WF K) (vs : List Var)
    (a : Asg) (ha : Bounded K a) :
    (marginalize f vs).den a
      = sumR (overStates (elimScope f vs) ((elimScope f vs).map K) a f.den) := by
  rw [marginalize_eq K f hf]
  apply den_tabulateK K _ _ a ha
  intro x y hxy
  simp only
  rw [overStates_congr f vs (elimScope f vs) _ (fun v hv h => elim_keep_disj f vs v hv h)
    (by simp) x y hxy]

theorem den_maximize (K : Var → Nat) (f : Factor) (hf : f.WF K) (vs : List Var)
    (a : Asg) (ha : Bounded K a) :
    (maximize f vs).den a
      = maxR (overStates (elimScope f vs) ((elimScope f vs).map K) a f.den) := by
  rw [maximize_eq K f hf]
  apply den_tabulateK K _ _ a ha
  intro x y hxy
  simp only
  rw [overStates_congr f vs (elimScope f vs) _ (fun v hv h => elim_keep_disj f vs v hv h)
    (by simp) x y hxy]

theorem reduce_eq (K : Var → Nat) (f : Factor) (hf : f.WF K) (ev : List (Var × Nat)) :
    reduce f ev = tabulate (keepScope f (ev.map (·.1))) ((keepScope f (ev.map (·.1))).map K)
      (fun a => f.den (overrideL a (ev.map (·.1)) (ev.map (·.2)))) := by
  unfold reduce keepScope
  rw [outside_eq K f hf]
  simp only [List.map_map, pair_fst, pair_snd, List.map_id]

theorem wf_reduce (K : Var → Nat) (f : Factor) (hf : f.WF K) (ev : List (Var × Nat)) :
    (reduce f ev).WF K := by
  rw [reduce_eq K f hf]
  exact wf_tabulate K _ _ (hf.1.filter _)

/-- reduction fixes the context variables to the given states -/
theorem den_reduce (K : Var → Nat) (f : Factor) (hf : f.WF K) (ev : List (Var × Nat))
    (a : Asg) (ha : Bounded K a) :
    (reduce f ev).den a = f.den (overrideL a (ev.map (·.1)) (ev.map (·.2))) := by
  rw [reduce_eq K f hf]
  apply den_tabulateK K _ _ a ha
  intro x y hxy
  apply den_dependsOn f
  intro v hv
  apply overrideL_congr x y v _ _ _ (by simp)
  intro hvE
  apply hxy v
  unfold keepScope
  simp only [List.mem_filter]
  exact ⟨hv, by simpa using hvE⟩

/-! ### axis order -/

theorem lookupD_map (K : Var → Nat) (v : Var) : ∀ vs : List Var, v ∈ vs →
    lookupD 1 v (vs.map (fun w => (w, K w))) = K v
  | w :: ws, h => by
    simp only [List.map_cons, lookupD]
    by_cases e : v = w
    · simp [e]
    · simp only [e, if_false]
      exact lookupD_map K v ws (by
        rcases List.mem_cons.mp h with h | h
        · exact absurd h e
        · exact h)

theorem cardOf_eq (K : Var → Nat) (f : Factor) (hf : f.WF K) (v : Var) (hv : v ∈ f.scope) :
    f.cardOf v = K v := by
  unfold cardOf
  rw [hf.2.1, zip_map_eq]
  exact lookupD_map K v f.scope hv

theorem permuteAxes_eq (K : Var → Nat) (f : Factor) (hf : f.WF K) (ns : List Var)
    (hsub : ∀ v ∈ ns, v ∈ f.scope) :
    permuteAxes f ns = tabulate ns (ns.map K) f.den := by
  unfold permuteAxes
  congr 1
  exact List.map_congr_left (fun v hv => cardOf_eq K f hf v (hsub v hv))

theorem wf_permuteAxes (K : Var → Nat) (f : Factor) (hf : f.WF K) (ns : List Var)
    (hn : ns.Nodup) (hsub : ∀ v ∈ ns, v ∈ f.scope) : (permuteAxes f ns).WF K := by
  rw [permuteAxes_eq K f hf ns hsub]
  exact wf_tabulate K _ _ hn

/-- presenting a factor with another axis order does not change what it denotes -/
theorem den_permuteAxes (K : Var → Nat) (f : Factor) (hf : f.WF K) (ns : List Var)
    (hsub : ∀ v ∈ ns, v ∈ f.scope) (hsup : ∀ v ∈ f.scope, v ∈ ns)
    (a : Asg) (ha : Bounded K a) : (permuteAxes f ns).den a = f.den a := by
  rw [permuteAxes_eq K f hf ns hsub]
  exact den_tabulateK K _ _ a ha ((den_dependsOn f).mono hsup)


/-! ### single variable forms (the shape used by variable elimination) -/

/-- `a` with `v` set to `x` -/
def upd (a : Asg) (v : Var) (x : Nat) : Asg := fun w => if w = v then x else a w

theorem filter_contains_singleton (l : List Var) (v : Var) (hn : l.Nodup) (hv : v ∈ l) :
    l.filter (fun w => [v].contains w) = [v] := by
  have hc : (fun w => [v].contains w) = (fun w => decide (w = v)) := by funext w; simp
  rw [hc]
  induction l with
  | nil => cases hv
  | cons w ws ih =>
    have hw := (List.nodup_cons.mp hn)
    by_cases e : w = v
    · subst e
      have : ws.filter (fun u => decide (u = w)) = [] := by
        apply List.filter_eq_nil_iff.mpr
        intro u hu
        have : u ≠ w := fun e => hw.1 (e ▸ hu)
        simp [this]
      rw [List.filter_cons]
      simp [this]
    · have hv' : v ∈ ws := by
        rcases List.mem_cons.mp hv with h | h
        · exact absurd h.symm e
        · exact h
      rw [List.filter_cons]
      simp [e, ih hw.2 hv']

theorem filter_contains_singleton_notin (l : List Var) (v : Var) (hv : v ∉ l) :
    l.filter (fun w => [v].contains w) = [] := by
  apply List.filter_eq_nil_iff.mpr
  intro u hu
  have : u ≠ v := fun e => hv (e ▸ hu)
  simp [this]

theorem overStates_one (v : Var) (c : Nat) (a : Asg) (fn : Asg → Rat) :
    overStates [v] [c] a fn = (List.range c).map (fun x => fn (upd a v x)) := by
  unfold overStates allIdx
  simp only [List.prod_cons, List.prod_nil, Nat.mul_one]
  apply List.map_congr_left
  intro i _
  congr 1
  funext w
  simp [unravel, overrideL, upd]

/-- summing out one variable of the scope: Σ_x f(a[v := x]) -/
theorem den_marginalize_one (K : Var → Nat) (f : Factor) (hf : f.WF K) (v : Var) (hv : v ∈ f.scope)
    (a : Asg) (ha : Bounded K a) :
    (marginalize f [v]).den a = sumR ((List.range (K v)).map (fun x => f.den (upd a v x))) := by
  rw [den_marginalize K f hf [v] a ha]
  unfold elimScope
  rw [filter_contains_singleton f.scope v hf.1 hv]
  simp only [List.map_cons, List.map_nil]
  rw [overStates_one]

theorem den_maximize_one (K : Var → Nat) (f : Factor) (hf : f.WF K) (v : Var) (hv : v ∈ f.scope)
    (a : Asg) (ha : Bounded K a) :
    (maximize f [v]).den a = maxR ((List.range (K v)).map (fun x => f.den (upd a v x))) := by
  rw [den_maximize K f hf [v] a ha]
  unfold elimScope
  rw [filter_contains_singleton f.scope v hf.1 hv]
  simp only [List.map_cons, List.map_nil]
  rw [overStates_one]

/-- summing out a variable that is not in the scope changes nothing -/
theorem den_marginalize_notin (K : Var → Nat) (f : Factor) (hf : f.WF K) (v : Var) (hv : v ∉ f.scope)
    (a : Asg) (ha : Bounded K a) : (marginalize f [v]).den a = f.den a := by
  rw [den_marginalize K f hf [v] a ha]
  unfold elimScope
  rw [filter_contains_singleton_notin f.scope v hv]
  simp [overStates, allIdx, unravel, overrideL, sumR]

/-! ### maximum -/

theorem maxR_ge : ∀ (l : List Rat) (x : Rat), x ∈ l → x ≤ maxR l
  | [y], x, h => by simp at h; simp [maxR, h]
  | y :: z :: zs, x, h => by
    simp only [maxR]
    have ih := maxR_ge (z :: zs)
    rcases List.mem_cons.mp h with h | h
    · subst h
      split
      · next hlt => exact le_of_lt hlt
      · exact le_refl _
    · have := ih x h
      split
      · exact this
      · next hnl => exact le_trans this (not_lt.mp hnl)

theorem maxR_mem : ∀ (l : List Rat), l ≠ [] → maxR l ∈ l
  | [y], _ => by simp [maxR]
  | y :: z :: zs, _ => by
    simp only [maxR]
    have ih := maxR_mem (z :: zs) (by simp)
    split
    · exact List.mem_cons_of_mem _ ih
    · exact List.mem_cons_self

/-! ### normalisation -/

theorem den_normalize (f : Factor) (a : Asg) : (normalize f).den a = f.den a / f.total := by
  unfold normalize den
  simp only [Array.getD]
  by_cases h : ravel f.card (f.scope.map a) < f.vals.size
  · simp [h]
  · simp [h]

theorem wf_normalize (K : Var → Nat) (f : Factor) (hf : f.WF K) : (normalize f).WF K := by
  refine ⟨hf.1, hf.2.1, ?_⟩
  simp [normalize, hf.2.2]

theorem scope_map_asgOf (K : Var → Nat) (f : Factor) (hf : f.WF K) (i : Nat) :
    f.scope.map (asgOf f.scope f.card i) = unravel f.card i := by
  unfold asgOf
  apply overrideL_map _ _ _ hf.1
  rw [unravel_length, hf.2.1, List.length_map]

theorem den_asgOf (K : Var → Nat) (f : Factor) (hf : f.WF K) (i : Nat) (hi : i < f.card.prod) :
    f.den (asgOf f.scope f.card i) = f.vals.getD i 0 := by
  unfold den
  rw [scope_map_asgOf K f hf, ravel_unravel _ _ hi]

/-- the normalising constant is the sum of the factor over all its joint states -/
theorem total_eq (K : Var → Nat) (f : Factor) (hf : f.WF K) :
    f.total = sumR ((allIdx f.card).map (fun i => f.den (asgOf f.scope f.card i))) := by
  unfold total allIdx
  congr 1
  apply List.ext_getElem
  · simp [hf.2.2]
  · intro i h1 h2
    simp only [List.length_map, List.length_range] at h2
    simp only [List.getElem_map, List.getElem_range]
    rw [den_asgOf K f hf i h2]
    simp [Array.getD, hf.2.2, h2]

end Factor
end PgmVerif
