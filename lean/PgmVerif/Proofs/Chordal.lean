/-
  Proofs/Chordal.lean — the easy half of Fulkerson & Gross (1965): a graph that has a perfect elimination
  ordering has no chordless cycle of length ≥ 4.  Together with `elimination_order_is_perfect` this makes
  "the graph filled in by ANY elimination order is chordal" a theorem.
-/
import PgmVerif.Proofs.Elim
namespace PgmVerif
namespace UG

/-- perfect elimination ordering, recursive form: the later neighbours of the head are pairwise adjacent -/
def PEO (Adj : Var → Var → Prop) : List Var → Prop
  | [] => True
  | v :: post => (∀ a ∈ post, ∀ b ∈ post, a ≠ b → Adj v a → Adj v b → Adj a b) ∧ PEO Adj post

/-- the split form (as proved for elimination orders) gives the recursive form -/
theorem peo_of_splits (Adj : Var → Var → Prop) (order : List Var)
    (h : ∀ pre v post, order = pre ++ v :: post →
      ∀ a b, a ∈ post → b ∈ post → a ≠ b → Adj v a → Adj v b → Adj a b) :
    ∀ (suf pre : List Var), order = pre ++ suf → PEO Adj suf
  | [], _, _ => trivial
  | v :: post, pre, e => by
    refine ⟨fun a ha b hb hab hva hvb => h pre v post e a b ha hb hab hva hvb, ?_⟩
    exact peo_of_splits Adj order h post (pre ++ [v]) (by rw [e]; simp)

/-- a closed walk `f 0, f 1, …, f (n-1), f 0` on distinct vertices -/
structure Cycle (Adj : Var → Var → Prop) (f : Nat → Var) (n : Nat) : Prop where
  inj : ∀ i j, i < n → j < n → f i = f j → i = j
  step : ∀ k, k + 1 < n → Adj (f k) (f (k + 1))
  close : Adj (f (n - 1)) (f 0)

/-- a chord: two cycle positions that are not neighbours on the cycle, yet adjacent -/
def HasChord (Adj : Var → Var → Prop) (f : Nat → Var) (n : Nat) : Prop :=
  ∃ i j, i + 1 < j ∧ j < n ∧ ¬ (i = 0 ∧ j = n - 1) ∧ Adj (f i) (f j)

/-- **perfect elimination ordering ⇒ chordal**: every cycle of length ≥ 4 through vertices of the ordering has a chord -/
theorem peo_cycle_has_chord (Adj : Var → Var → Prop) (hsymm : ∀ u v, Adj u v → Adj v u) :
    ∀ (order : List Var), PEO Adj order → ∀ (f : Nat → Var) (n : Nat), 4 ≤ n → Cycle Adj f n →
      (∀ i, i < n → f i ∈ order) → HasChord Adj f n
  | [], _, f, n, hn, _, hmem => by
    exact absurd (hmem 0 (by omega)) List.not_mem_nil
  | u :: rest, hpeo, f, n, hn, hc, hmem => by
    by_cases hu : ∃ i, i < n ∧ f i = u
    · obtain ⟨i, hi, hfi⟩ := hu
      -- every other cycle vertex lies in `rest`
      have inrest : ∀ j, j < n → j ≠ i → f j ∈ rest := by
        intro j hj hji
        rcases List.mem_cons.mp (hmem j hj) with e | e
        · exact absurd (hc.inj j i hj hi (e.trans hfi.symm)) hji
        · exact e
      have key := hpeo.1
      by_cases h0 : i = 0
      · -- neighbours 1 and n-1
        subst h0
        have ha : Adj u (f 1) := hfi ▸ hc.step 0 (by omega)
        have hb : Adj u (f (n - 1)) := hfi ▸ hsymm _ _ hc.close
        have hne : f 1 ≠ f (n - 1) := fun e => by
          have := hc.inj 1 (n - 1) (by omega) (by omega) e; omega
        exact ⟨1, n - 1, by omega, by omega, by omega,
          key _ (inrest 1 (by omega) (by omega)) _ (inrest (n - 1) (by omega) (by omega)) hne ha hb⟩
      · by_cases hl : i = n - 1
        · -- neighbours n-2 and 0
          subst hl
          have ha : Adj u (f 0) := hfi ▸ hc.close
          have hb : Adj u (f (n - 2)) := by
            have := hc.step (n - 2) (by omega)
            rw [show n - 2 + 1 = n - 1 by omega, hfi] at this
            exact hsymm _ _ this
          have hne : f 0 ≠ f (n - 2) := fun e => by
            have := hc.inj 0 (n - 2) (by omega) (by omega) e; omega
          exact ⟨0, n - 2, by omega, by omega, by omega,
            key _ (inrest 0 (by omega) (by omega)) _ (inrest (n - 2) (by omega) (by omega)) hne ha hb⟩
        · -- neighbours i-1 and i+1
          have ha : Adj u (f (i - 1)) := by
            have := hc.step (i - 1) (by omega)
            rw [show i - 1 + 1 = i by omega, hfi] at this
            exact hsymm _ _ this
          have hb : Adj u (f (i + 1)) := hfi ▸ hc.step i (by omega)
          have hne : f (i - 1) ≠ f (i + 1) := fun e => by
            have := hc.inj (i - 1) (i + 1) (by omega) (by omega) e; omega
          exact ⟨i - 1, i + 1, by omega, by omega, by omega,
            key _ (inrest (i - 1) (by omega) (by omega)) _ (inrest (i + 1) (by omega) (by omega)) hne ha hb⟩
    · -- `u` is not on the cycle: the cycle lives in the rest of the ordering
      have hmem' : ∀ i, i < n → f i ∈ rest := by
        intro i hi
        rcases List.mem_cons.mp (hmem i hi) with e | e
        · exact absurd ⟨i, hi, e⟩ hu
        · exact e
      exact peo_cycle_has_chord Adj hsymm rest hpeo.2 f n hn hc hmem'

end UG
end PgmVerif
