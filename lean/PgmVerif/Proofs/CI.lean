/-
  Proofs/CI.lean — conditional independence in a finite joint distribution, at the level of
  functions `Asg → Rat`, and the semi-graphoid rules (symmetry, decomposition, weak union,
  contraction) as theorems about every non-negative table.  Used by C18.
-/
import PgmVerif.Proofs.SumProd
import Mathlib.Data.List.Perm.Basic
import Mathlib.Algebra.Order.BigOperators.Group.Finset
import Mathlib.Tactic.Ring
import Mathlib.Tactic.Linarith
import Mathlib.Tactic.LinearCombination
namespace PgmVerif
open Factor

/-- `g` ignores the variables of `vs` -/
def Ignores (g : Asg → Rat) (vs : List Var) : Prop := ∀ a v x, v ∈ vs → g (upd a v x) = g a

theorem sumVar_ignores (K : Var → Nat) (v : Var) (g : Asg → Rat) (a : Asg) (x : Nat) :
    sumVar K v g (upd a v x) = sumVar K v g a := by
  unfold sumVar
  simp only [upd_upd]

theorem sumOut_ignores (K : Var → Nat) : ∀ (vs : List Var) (g : Asg → Rat) (v : Var), v ∈ vs →
    ∀ (a : Asg) (x : Nat), sumOut K vs g (upd a v x) = sumOut K vs g a
  | u :: us, g, v, hv, a, x => by
    simp only [sumOut]
    by_cases e : v = u
    · subst e
      rw [← sumVar_sumOut, sumVar_ignores]
    · have hv' : v ∈ us := by
        rcases List.mem_cons.mp hv with h | h
        · exact absurd h e
        · exact h
      exact sumOut_ignores K us _ v hv' a x

theorem sumOut_mul_left (K : Var → Nat) : ∀ (vs : List Var) (c g : Asg → Rat), Ignores c vs →
    ∀ a, sumOut K vs (fun b => c b * g b) a = c a * sumOut K vs g a
  | [], _, _, _, _ => rfl
  | v :: vs, c, g, hc, a => by
    simp only [sumOut]
    have h1 : sumVar K v (fun b => c b * g b) = fun b => c b * sumVar K v g b := by
      funext b
      exact sumVar_mul_const K v c g (fun a' x => hc a' v x List.mem_cons_self) b
    rw [h1]
    exact sumOut_mul_left K vs c (sumVar K v g)
      (fun a' w x hw => hc a' w x (List.mem_cons_of_mem _ hw)) a

theorem sumOut_mul_right (K : Var → Nat) (vs : List Var) (c g : Asg → Rat) (hc : Ignores c vs) (a : Asg) :
    sumOut K vs (fun b => g b * c b) a = sumOut K vs g a * c a := by
  have : (fun b => g b * c b) = fun b => c b * g b := by funext b; ring
  rw [this, sumOut_mul_left K vs c g hc a]; ring

/-! ### non-negativity and the own term of a sum -/

def NonnegB (K : Var → Nat) (g : Asg → Rat) : Prop := ∀ a, Bounded K a → 0 ≤ g a

theorem upd_self (a : Asg) (v : Var) : upd a v (a v) = a := by
  funext w; unfold upd; by_cases e : w = v <;> simp [e]

theorem sumVar_nonneg {K : Var → Nat} {g : Asg → Rat} (hg : NonnegB K g) (v : Var) : NonnegB K (sumVar K v g) := by
  intro a ha
  rw [sumVar_eq]
  apply Finset.sum_nonneg
  intro x hx
  exact hg _ (upd_bounded ha v x (Finset.mem_range.mp hx))

theorem sumVar_ge_self {K : Var → Nat} {g : Asg → Rat} (hg : NonnegB K g) (v : Var) (a : Asg) (ha : Bounded K a) :
    g a ≤ sumVar K v g a := by
  rw [sumVar_eq]
  have hmem : a v ∈ Finset.range (K v) := Finset.mem_range.mpr (ha v)
  have := Finset.single_le_sum (f := fun x => g (upd a v x)) (s := Finset.range (K v))
    (fun x hx => hg _ (upd_bounded ha v x (Finset.mem_range.mp hx))) hmem
  simpa [upd_self] using this

theorem sumOut_nonneg {K : Var → Nat} : ∀ (vs : List Var) {g : Asg → Rat}, NonnegB K g → NonnegB K (sumOut K vs g)
  | [], _, hg => hg
  | v :: vs, _, hg => sumOut_nonneg vs (sumVar_nonneg hg v)

theorem sumOut_ge_self {K : Var → Nat} : ∀ (vs : List Var) {g : Asg → Rat}, NonnegB K g →
    ∀ a, Bounded K a → g a ≤ sumOut K vs g a
  | [], _, _, _, _ => le_refl _
  | v :: vs, g, hg, a, ha => by
    simp only [sumOut]
    exact le_trans (sumVar_ge_self hg v a ha) (sumOut_ge_self vs (sumVar_nonneg hg v) a ha)

/-! ### marginals of a joint over the variable list `V` -/

/-- the marginal over the variable SET `S`: everything of `V` outside `S` is summed out -/
def marg (K : Var → Nat) (V : List Var) (P : Asg → Rat) (S : List Var) : Asg → Rat :=
  sumOut K (V.filter (fun v => !S.contains v)) P

theorem marg_congr (K : Var → Nat) (V : List Var) (P : Asg → Rat) {S T : List Var}
    (h : ∀ v, v ∈ S ↔ v ∈ T) : marg K V P S = marg K V P T := by
  unfold marg
  congr 1
  apply List.filter_congr
  intro v _
  have : S.contains v = T.contains v := by
    rw [Bool.eq_iff_iff]; simp [h v]
  rw [this]

/-- the variables of `T` outside `S` -/
def diffVars (V S T : List Var) : List Var := V.filter (fun v => T.contains v && !S.contains v)

theorem marg_sub (K : Var → Nat) (V : List Var) (P : Asg → Rat) (S T : List Var) (hST : ∀ v, v ∈ S → v ∈ T) :
    marg K V P S = sumOut K (diffVars V S T) (marg K V P T) := by
  unfold marg diffVars
  rw [← sumOut_append]
  apply sumOut_perm
  -- V.filter (∉S) ~ V.filter (∉T) ++ V.filter (∈T ∧ ∉S)
  have h1 := (List.filter_append_perm (fun v => !T.contains v) (V.filter (fun v => !S.contains v))).symm
  refine h1.trans ?_
  rw [List.filter_filter, List.filter_filter]
  apply List.Perm.append
  · apply List.Perm.of_eq
    apply List.filter_congr
    intro v _
    by_cases hT : v ∈ T
    · simp [hT]
    · have hS : v ∉ S := fun h' => hT (hST v h')
      simp [hT, hS]
  · apply List.Perm.of_eq
    apply List.filter_congr
    intro v _
    by_cases hT : v ∈ T <;> by_cases hS : v ∈ S <;> simp [hT, hS]

theorem marg_ignores (K : Var → Nat) (V : List Var) (P : Asg → Rat) (S D : List Var)
    (hD : ∀ v ∈ D, v ∈ V ∧ v ∉ S) : Ignores (marg K V P S) D := by
  intro a v x hv
  unfold marg
  apply sumOut_ignores
  obtain ⟨h1, h2⟩ := hD v hv
  exact List.mem_filter.mpr ⟨h1, by simpa using h2⟩

theorem marg_nonneg {K : Var → Nat} (V : List Var) {P : Asg → Rat} (hP : NonnegB K P) (S : List Var) :
    NonnegB K (marg K V P S) := sumOut_nonneg _ hP

/-- a finer marginal is bounded by a coarser one: P(s, d) ≤ P(s) -/
theorem marg_le (K : Var → Nat) (V : List Var) (P : Asg → Rat) (hP : NonnegB K P) (S T : List Var)
    (hST : ∀ v, v ∈ S → v ∈ T) (a : Asg) (ha : Bounded K a) : marg K V P T a ≤ marg K V P S a := by
  rw [marg_sub K V P S T hST]
  exact sumOut_ge_self _ (marg_nonneg V hP T) a ha

theorem marg_zero_of_zero (K : Var → Nat) (V : List Var) (P : Asg → Rat) (hP : NonnegB K P) (S T : List Var)
    (hST : ∀ v, v ∈ S → v ∈ T) (a : Asg) (ha : Bounded K a) (h0 : marg K V P S a = 0) : marg K V P T a = 0 :=
  le_antisymm (h0 ▸ marg_le K V P hP S T hST a ha) (marg_nonneg V hP T a ha)

/-! ### conditional independence and the semi-graphoid rules -/

/-- X ⟂ Y | Z in `P`:  P(x,y,z)·P(z) = P(x,z)·P(y,z)  for every joint state -/
def CI (K : Var → Nat) (V : List Var) (P : Asg → Rat) (X Y Z : List Var) : Prop :=
  ∀ a, Bounded K a →
    marg K V P (X ++ Y ++ Z) a * marg K V P Z a = marg K V P (X ++ Z) a * marg K V P (Y ++ Z) a

theorem CI_congr (K : Var → Nat) (V : List Var) (P : Asg → Rat) {X Y Z X' Y' Z' : List Var}
    (hx : ∀ v, v ∈ X ↔ v ∈ X') (hy : ∀ v, v ∈ Y ↔ v ∈ Y') (hz : ∀ v, v ∈ Z ↔ v ∈ Z')
    (h : CI K V P X Y Z) : CI K V P X' Y' Z' := by
  intro a ha
  have e1 : marg K V P (X' ++ Y' ++ Z') = marg K V P (X ++ Y ++ Z) :=
    marg_congr K V P (by intro v; simp [hx v, hy v, hz v])
  have e2 : marg K V P Z' = marg K V P Z := marg_congr K V P (by intro v; simp [hz v])
  have e3 : marg K V P (X' ++ Z') = marg K V P (X ++ Z) := marg_congr K V P (by intro v; simp [hx v, hz v])
  have e4 : marg K V P (Y' ++ Z') = marg K V P (Y ++ Z) := marg_congr K V P (by intro v; simp [hy v, hz v])
  rw [e1, e2, e3, e4]
  exact h a ha

/-- symmetry -/
theorem CI_symm (K : Var → Nat) (V : List Var) (P : Asg → Rat) (X Y Z : List Var) (h : CI K V P X Y Z) :
    CI K V P Y X Z := by
  intro a ha
  have e1 : marg K V P (Y ++ X ++ Z) = marg K V P (X ++ Y ++ Z) :=
    marg_congr K V P (by intro v; simp only [List.mem_append]; tauto)
  rw [e1, h a ha]; ring

/-- decomposition: X ⟂ Y | Z and Y' ⊆ Y give X ⟂ Y' | Z (X and Y disjoint) -/
theorem CI_decomposition (K : Var → Nat) (V : List Var) (P : Asg → Rat) (X Y Y' Z : List Var)
    (hsub : ∀ v, v ∈ Y' → v ∈ Y) (hdisj : ∀ v, v ∈ X → v ∉ Y) (h : CI K V P X Y Z) : CI K V P X Y' Z := by
  intro a ha
  set D := diffVars V (X ++ Y' ++ Z) (X ++ Y ++ Z) with hD
  have hDmem : ∀ v ∈ D, v ∈ V ∧ v ∈ Y ∧ v ∉ X ∧ v ∉ Y' ∧ v ∉ Z := by
    intro v hv
    obtain ⟨hV, hc⟩ := List.mem_filter.mp hv
    simp only [Bool.and_eq_true, Bool.not_eq_true', List.contains_eq_mem, decide_eq_true_eq, decide_eq_false_iff_not,
      List.mem_append, not_or] at hc
    obtain ⟨h1, ⟨h2, h3⟩, h4⟩ := hc
    refine ⟨hV, ?_, h2, h3, h4⟩
    rcases h1 with (h1 | h1) | h1
    · exact absurd h1 h2
    · exact h1
    · exact absurd h1 h4
  have hD' : diffVars V (Y' ++ Z) (Y ++ Z) = D := by
    rw [hD]; unfold diffVars
    apply List.filter_congr
    intro v _
    by_cases hX : v ∈ X
    · have hY : v ∉ Y := hdisj v hX
      have hY' : v ∉ Y' := fun h' => hY (hsub v h')
      by_cases hZ : v ∈ Z <;> simp [hX, hY, hY', hZ]
    · by_cases hY : v ∈ Y <;> by_cases hY' : v ∈ Y' <;> by_cases hZ : v ∈ Z <;> simp [hX, hY, hY', hZ]
  have s1 : marg K V P (X ++ Y' ++ Z) = sumOut K D (marg K V P (X ++ Y ++ Z)) :=
    marg_sub K V P _ _ (by
      intro v; simp only [List.mem_append]
      rintro ((h' | h') | h')
      · exact Or.inl (Or.inl h')
      · exact Or.inl (Or.inr (hsub v h'))
      · exact Or.inr h')
  have s2 : marg K V P (Y' ++ Z) = sumOut K D (marg K V P (Y ++ Z)) := by
    rw [← hD']
    exact marg_sub K V P _ _ (by
      intro v; simp only [List.mem_append]
      rintro (h' | h')
      · exact Or.inl (hsub v h')
      · exact Or.inr h')
  have iZ : Ignores (marg K V P Z) D := marg_ignores K V P Z D (fun v hv => ⟨(hDmem v hv).1, (hDmem v hv).2.2.2.2⟩)
  have iXZ : Ignores (marg K V P (X ++ Z)) D := marg_ignores K V P _ D (fun v hv => ⟨(hDmem v hv).1, by
    simp only [List.mem_append, not_or]; exact ⟨(hDmem v hv).2.2.1, (hDmem v hv).2.2.2.2⟩⟩)
  rw [s1, s2, ← sumOut_mul_right K D _ _ iZ a, ← sumOut_mul_left K D _ _ iXZ a]
  exact sumOut_congr D (fun b hb => h b hb) a ha

/-- weak union: X ⟂ Y | Z, W ⊆ Y, Y' ∪ W = Y give X ⟂ Y' | Z ∪ W (non-negative P, X and Y disjoint) -/
theorem CI_weak_union (K : Var → Nat) (V : List Var) (P : Asg → Rat) (hP : NonnegB K P) (X Y Y' W Z : List Var)
    (hY : ∀ v, v ∈ Y ↔ v ∈ Y' ∨ v ∈ W) (hdisj : ∀ v, v ∈ X → v ∉ Y) (h : CI K V P X Y Z) :
    CI K V P X Y' (W ++ Z) := by
  intro a ha
  have hW : CI K V P X W Z := CI_decomposition K V P X Y W Z (fun v hv => (hY v).mpr (Or.inr hv)) hdisj h
  have e1 : marg K V P (X ++ Y' ++ (W ++ Z)) = marg K V P (X ++ Y ++ Z) :=
    marg_congr K V P (by intro v; simp only [List.mem_append, hY v]; tauto)
  have e2 : marg K V P (X ++ (W ++ Z)) = marg K V P (X ++ W ++ Z) :=
    marg_congr K V P (by intro v; simp only [List.mem_append]; tauto)
  have e3 : marg K V P (Y' ++ (W ++ Z)) = marg K V P (Y ++ Z) :=
    marg_congr K V P (by intro v; simp only [List.mem_append, hY v]; tauto)
  rw [e1, e2, e3]
  have h1 := h a ha
  have h2 := hW a ha
  by_cases hz : marg K V P Z a = 0
  · have z1 : marg K V P (X ++ Y ++ Z) a = 0 :=
      marg_zero_of_zero K V P hP Z _ (fun v hv => List.mem_append_right _ hv) a ha hz
    have z2 : marg K V P (X ++ W ++ Z) a = 0 :=
      marg_zero_of_zero K V P hP Z _ (fun v hv => List.mem_append_right _ hv) a ha hz
    rw [z1, z2]; ring
  · apply mul_right_cancel₀ hz
    linear_combination (marg K V P (W ++ Z) a) * h1 - (marg K V P (Y ++ Z) a) * h2

/-- contraction: X ⟂ W | Z ∪ Y and X ⟂ Y | Z give X ⟂ Y ∪ W | Z (non-negative P) -/
theorem CI_contraction (K : Var → Nat) (V : List Var) (P : Asg → Rat) (hP : NonnegB K P) (X Y W Z : List Var)
    (h1 : CI K V P X W (Z ++ Y)) (h2 : CI K V P X Y Z) : CI K V P X (W ++ Y) Z := by
  intro a ha
  have e1 : marg K V P (X ++ W ++ (Z ++ Y)) = marg K V P (X ++ (W ++ Y) ++ Z) :=
    marg_congr K V P (by intro v; simp only [List.mem_append]; tauto)
  have e2 : marg K V P (Z ++ Y) = marg K V P (Y ++ Z) :=
    marg_congr K V P (by intro v; simp only [List.mem_append]; tauto)
  have e3 : marg K V P (X ++ (Z ++ Y)) = marg K V P (X ++ Y ++ Z) :=
    marg_congr K V P (by intro v; simp only [List.mem_append]; tauto)
  have e4 : marg K V P (W ++ (Z ++ Y)) = marg K V P ((W ++ Y) ++ Z) :=
    marg_congr K V P (by intro v; simp only [List.mem_append]; tauto)
  have a1 := h1 a ha
  rw [e1, e2, e3, e4] at a1
  have a2 := h2 a ha
  by_cases hyz : marg K V P (Y ++ Z) a = 0
  · have z1 : marg K V P (X ++ (W ++ Y) ++ Z) a = 0 :=
      marg_zero_of_zero K V P hP (Y ++ Z) _ (by intro v; simp only [List.mem_append]; tauto) a ha hyz
    have z2 : marg K V P ((W ++ Y) ++ Z) a = 0 :=
      marg_zero_of_zero K V P hP (Y ++ Z) _ (by intro v; simp only [List.mem_append]; tauto) a ha hyz
    rw [z1, z2]; ring
  · apply mul_right_cancel₀ hyz
    linear_combination (marg K V P Z a) * a1 + (marg K V P ((W ++ Y) ++ Z) a) * a2

end PgmVerif
