/-
  Proofs/Layout.lean — row-major layout lemmas.
  Used by C03 (argmax decoding), C04/C05 (tables), C09 (file layouts).
-/
import PgmVerif.Model.Basic
import Mathlib.Data.List.Nodup
namespace PgmVerif

theorem ravel_lt : ∀ (cs is : List Nat), InRange cs is → ravel cs is < cs.prod
  | [], [], _ => by simp [ravel]
  | c :: cs, i :: is, h => by
    obtain ⟨hi, hr⟩ := h
    have ih := ravel_lt cs is hr
    simp only [ravel, List.prod_cons]
    calc i * cs.prod + ravel cs is < i * cs.prod + cs.prod := by omega
      _ = (i + 1) * cs.prod := by rw [Nat.add_mul, Nat.one_mul]
      _ ≤ c * cs.prod := Nat.mul_le_mul_right _ hi
  | [], _ :: _, h => by simp [InRange] at h
  | _ :: _, [], h => by simp [InRange] at h

theorem unravel_ravel : ∀ (cs is : List Nat), InRange cs is → unravel cs (ravel cs is) = is
  | [], [], _ => by simp [unravel]
  | c :: cs, i :: is, h => by
    obtain ⟨hi, hr⟩ := h
    have hlt := ravel_lt cs is hr
    have ih := unravel_ravel cs is hr
    have hpos : 0 < cs.prod := by omega
    simp only [ravel, unravel]
    have h1 : (i * cs.prod + ravel cs is) / cs.prod = i := by
      rw [Nat.add_comm, Nat.add_mul_div_right _ _ hpos, Nat.div_eq_of_lt hlt, Nat.zero_add]
    have h2 : (i * cs.prod + ravel cs is) % cs.prod = ravel cs is := by
      rw [Nat.add_comm, Nat.add_mul_mod_self_right, Nat.mod_eq_of_lt hlt]
    rw [h1, h2, ih]
  | [], _ :: _, h => by simp [InRange] at h
  | _ :: _, [], h => by simp [InRange] at h

theorem unravel_length : ∀ (cs : List Nat) (n : Nat), (unravel cs n).length = cs.length
  | [], _ => rfl
  | _ :: cs, n => by simp [unravel, unravel_length cs]

theorem unravel_inRange : ∀ (cs : List Nat) (n : Nat), n < cs.prod → InRange cs (unravel cs n)
  | [], _, _ => trivial
  | c :: cs, n, h => by
    simp only [List.prod_cons] at h
    have hpos : 0 < cs.prod := by
      rcases Nat.eq_zero_or_pos cs.prod with h0 | h0
      · rw [h0, Nat.mul_zero] at h; omega
      · exact h0
    refine ⟨?_, unravel_inRange cs _ (Nat.mod_lt _ hpos)⟩
    exact (Nat.div_lt_iff_lt_mul hpos).mpr h

theorem ravel_unravel : ∀ (cs : List Nat) (n : Nat), n < cs.prod → ravel cs (unravel cs n) = n
  | [], n, h => by simp at h; simp [ravel, h]
  | c :: cs, n, h => by
    simp only [List.prod_cons] at h
    have hpos : 0 < cs.prod := by
      rcases Nat.eq_zero_or_pos cs.prod with h0 | h0
      · rw [h0, Nat.mul_zero] at h; omega
      · exact h0
    simp only [unravel, ravel]
    rw [ravel_unravel cs _ (Nat.mod_lt _ hpos)]
    exact Nat.div_add_mod' n cs.prod

theorem inRange_length : ∀ (cs is : List Nat), InRange cs is → is.length = cs.length
  | [], [], _ => rfl
  | _ :: cs, _ :: is, h => by simp [inRange_length cs is h.2]
  | [], _ :: _, h => by simp [InRange] at h
  | _ :: _, [], h => by simp [InRange] at h

/-- the C-order enumeration of a shape lists every in-range multi-index -/
theorem mem_tuples_of_inRange (cs is : List Nat) (h : InRange cs is) :
    is ∈ (allIdx cs).map (unravel cs) := by
  refine List.mem_map.mpr ⟨ravel cs is, ?_, unravel_ravel cs is h⟩
  simp [allIdx, ravel_lt cs is h]

theorem inRange_of_mem_tuples (cs is : List Nat) (h : is ∈ (allIdx cs).map (unravel cs)) :
    InRange cs is := by
  obtain ⟨n, hn, rfl⟩ := List.mem_map.mp h
  simp [allIdx] at hn
  exact unravel_inRange cs n hn

/-- … exactly once -/
theorem tuples_nodup (cs : List Nat) : ((allIdx cs).map (unravel cs)).Nodup := by
  refine List.Nodup.map_on ?_ List.nodup_range
  intro x hx y hy hxy
  simp [allIdx] at hx hy
  rw [← ravel_unravel cs x hx, ← ravel_unravel cs y hy, hxy]

/-! ### assignments -/

theorem overrideL_notin (a : Asg) : ∀ (vs : List Var) (xs : List Nat) (w : Var), w ∉ vs →
    overrideL a vs xs w = a w
  | [], _, _, _ => by simp [overrideL]
  | _ :: _, [], _, _ => by simp [overrideL]
  | v :: vs, x :: xs, w, h => by
    have h1 : w ≠ v := fun e => h (e ▸ List.mem_cons_self)
    have h2 : w ∉ vs := fun e => h (List.mem_cons_of_mem _ e)
    simp [overrideL, h1, overrideL_notin a vs xs w h2]

theorem overrideL_map (a : Asg) : ∀ (vs : List Var) (xs : List Nat), vs.Nodup → xs.length = vs.length →
    vs.map (overrideL a vs xs) = xs
  | [], [], _, _ => rfl
  | [], _ :: _, _, h => by simp at h
  | _ :: _, [], _, h => by simp at h
  | v :: vs, x :: xs, hn, hl => by
    have hv : v ∉ vs := (List.nodup_cons.mp hn).1
    have ih := overrideL_map a vs xs (List.nodup_cons.mp hn).2 (by simpa using hl)
    simp only [List.map_cons, overrideL, if_true]
    congr 1
    rw [← ih]
    apply List.map_congr_left
    intro w hw
    have : w ≠ v := fun e => hv (e ▸ hw)
    simp [this, ih]

/-- on the variables of `vs`, overriding with the values `a` already has changes nothing -/
theorem overrideL_self (b a : Asg) : ∀ (vs : List Var) (w : Var), w ∈ vs →
    overrideL b vs (vs.map a) w = a w
  | v :: vs, w, h => by
    simp only [List.map_cons, overrideL]
    by_cases e : w = v
    · simp [e]
    · simp only [e, if_false]
      exact overrideL_self b a vs w (by
        rcases List.mem_cons.mp h with h | h
        · exact absurd h e
        · exact h)

/-- decoding the flat index of `a`'s coordinates gives back `a` on the scope -/
theorem asgOf_ravel (scope : List Var) (card : List Nat) (a : Asg)
    (h : InRange card (scope.map a)) (w : Var) (hw : w ∈ scope) :
    asgOf scope card (ravel card (scope.map a)) w = a w := by
  unfold asgOf
  rw [unravel_ravel card _ h]
  exact overrideL_self _ a scope w hw

end PgmVerif
