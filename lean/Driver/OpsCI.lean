/- Driver/OpsCI.lean — CI-test statistic (C19) -/
import Driver.Json
import PgmVerif.Model.CITest
open Lean PgmVerif PgmVerif.Drv
namespace PgmVerif.Drv

def handleCI (op : String) (j : Json) : Option (Except String Json) :=
  match op with
  | "ci_stat" => some do
      let rows ← getList (fun r => do
        let l ← getNats r
        match l with
        | [x, y, s] => pure ({ x := x, y := y, s := s } : CIRow)
        | _ => .error "row = [x,y,s]") (← fld j "rows")
      let kx ← fldNat j "kx"; let ky ← fldNat j "ky"; let ks ← fldNat j "ks"
      let kind ← fldStr j "kind"
      let cell := if kind == "neyman" then cellNeyman else cellPearson
      let (st, dof) := stratified cell kx ky ks rows
      let cells := (strata ks rows).map (fun s => Json.arr ((levelsX kx s).map (fun i =>
        Json.arr ((levelsY ky s).map (fun jj => Json.arr #[jNat (obs s i jj), jRat (expectedAt s i jj)])).toArray)).toArray)
      pure (Json.mkObj [("stat", jRat st), ("dof", jNat dof), ("tables", Json.arr cells.toArray)])
  | _ => none

end PgmVerif.Drv
