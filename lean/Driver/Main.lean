/- Driver/Main.lean — JSON-lines driver: one request per line on stdin, one reply per line. -/
import Driver.OpsFactor
import Driver.OpsCPD
import Driver.OpsGraph
import Driver.OpsHistory
import Driver.OpsLearn
import Driver.OpsScore
import Driver.OpsSearch
import Driver.OpsJT
import Driver.OpsIndep
import Driver.OpsPC
import Driver.OpsDBN
import Driver.OpsCI
import Driver.OpsGauss
open Lean PgmVerif PgmVerif.Drv

def handlers : List (String → Json → Option (Except String Json)) :=
  [handleFactor, handleCPD, handleGraph, handleHistory, handleLearn, handleScore, handleSearch, handleJT, handleIndep, handlePC, handleDBN, handleCI, handleGauss]

def handle (op : String) (j : Json) : Except String Json :=
  match handlers.findSome? (fun h => h op j) with
  | some r => r
  | none => .error s!"unknown op {op}"

def handleLine (line : String) : String :=
  match Json.parse line with
  | .error e => (Json.mkObj [("error", Json.str s!"parse: {e}")]).compress
  | .ok j =>
    let id := (j.getObjVal? "id").toOption.getD Json.null
    match (do let op ← fldStr j "op"; handle op j) with
    | .ok r => (Json.mkObj [("id", id), ("ok", r)]).compress
    | .error e => (Json.mkObj [("id", id), ("error", Json.str e)]).compress

partial def loop (hin : IO.FS.Stream) (hout : IO.FS.Stream) : IO Unit := do
  let line ← hin.getLine
  if line.isEmpty then return ()
  let t := line.trimAscii.toString
  if t.isEmpty then loop hin hout else
  hout.putStrLn (handleLine t)
  hout.flush
  loop hin hout

def main : IO Unit := do
  loop (← IO.getStdin) (← IO.getStdout)
