/- Driver/Main.lean — JSON-lines driver: one request per line on stdin, one reply per line. -/
import Driver.Json
import PgmVerif.Model.VE
open Lean PgmVerif PgmVerif.Drv

def handle (op : String) (j : Json) : Except String Json := do
  match op with
  | "ping" => pure (Json.mkObj [("pong", Json.bool true)])
  | "ravel" => do
      let cs ← fldNats j "card"; let is ← fldNats j "idx"
      pure (Json.mkObj [("r", jNat (ravel cs is))])
  | "unravel" => do
      let cs ← fldNats j "card"; let n ← fldNat j "n"
      pure (Json.mkObj [("r", jNats (unravel cs n))])
  | "f_product" => do
      pure (jFactor (Factor.product (← fldFactor j "f") (← fldFactor j "g")))
  | "f_add" => do
      pure (jFactor (Factor.add (← fldFactor j "f") (← fldFactor j "g")))
  | "f_divide" => do
      let f ← fldFactor j "f"; let g ← fldFactor j "g"
      pure (Json.mkObj [("r", jFactor (Factor.divide f g)), ("inf", jNats (Factor.divInf f g))])
  | "f_marginalize" => do
      pure (jFactor (Factor.marginalize (← fldFactor j "f") (← fldNats j "vars")))
  | "f_maximize" => do
      pure (jFactor (Factor.maximize (← fldFactor j "f") (← fldNats j "vars")))
  | "f_reduce" => do
      pure (jFactor (Factor.reduce (← fldFactor j "f") (← fldPairs j "ev")))
  | "f_normalize" => do
      pure (jFactor (Factor.normalize (← fldFactor j "f")))
  | "f_permute" => do
      pure (jFactor (Factor.permuteAxes (← fldFactor j "f") (← fldNats j "scope")))
  | "bn_posterior" => do
      let fs ← fldFactors j "fs"; let vars ← fldNats j "vars"; let cards ← fldNats j "cards"
      let q ← fldNats j "q"; let ev ← fldPairs j "ev"
      let pu := posteriorU fs vars cards q ev
      pure (Json.mkObj [("post", jFactor pu.normalize), ("pe", jRat pu.total)])
  | "bn_joint" => do
      let fs ← fldFactors j "fs"; let vars ← fldNats j "vars"; let cards ← fldNats j "cards"
      pure (jFactor (jointTable fs vars cards))
  | "ve_query" => do
      let fs ← fldFactors j "fs"; let q ← fldNats j "q"; let ev ← fldPairs j "ev"
      let order ← fldNats j "order"
      pure (jFactor (veQuery fs q ev order))
  | _ => .error s!"unknown op {op}"

def handleLine (line : String) : String :=
  match Json.parse line with
  | .error e => (Json.mkObj [("error", Json.str s!"parse: {e}")]).compress
  | .ok j =>
    let id := (j.getObjVal? "id").toOption.getD Json.null
    match (do let op ← fldStr j "op"; handle op j) with
    | .ok r => (Json.mkObj [("id", id), ("ok", r)]).compress
    | .error e => (Json.mkObj [("id", id), ("error", Json.str e)]).compress

partial def loop (hin : IO.FS.Stream) (hout : IO.FS.Stream) : IO Unit := do
  let line ← hin.getLine
  if line.isEmpty then return ()
  let t := line.trimAscii.toString
  if t.isEmpty then loop hin hout else
  hout.putStrLn (handleLine t)
  hout.flush
  loop hin hout

def main : IO Unit := do
  loop (← IO.getStdin) (← IO.getStdout)
