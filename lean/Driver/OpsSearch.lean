/- Driver/OpsSearch.lean — structure search ops (C11) -/
import Driver.OpsGraph
import PgmVerif.Model.Search
open Lean PgmVerif PgmVerif.Drv
namespace PgmVerif.Drv

def jOp : HOp → Json
  | .add x y => Json.arr #[Json.str "+", jNat x, jNat y]
  | .rem x y => Json.arr #[Json.str "-", jNat x, jNat y]
  | .flip x y => Json.arr #[Json.str "flip", jNat x, jNat y]

def getTab (j : Json) : Except String ScoreTab := do
  pure { tab := (← getList getRats j) }

def handleSearch (op : String) (j : Json) : Option (Except String Json) :=
  match op with
  | "hc_run" => some do
      let g ← getDG (← fld j "g")
      let s ← getTab (← fld j "scores")
      let white ← match fldOpt j "white" with
        | some Json.null => pure none
        | some w => do pure (some (← getPairs w))
        | none => pure none
      let mi ← match fldOpt j "max_indegree" with
        | some Json.null => pure none
        | some m => do pure (some (← getNat m))
        | none => pure none
      let o : HCOpts := { maxIndeg := mi, black := (← fldPairs j "black"), white := white,
                          fixed := (← fldPairs j "fixed"), tabuLen := (← fldNat j "tabu"),
                          eps := (← fldRat j "eps"), maxIter := (← fldNat j "max_iter") }
      let r := hillClimb s o g
      pure (Json.mkObj [("edges", jPairs r.g.edges), ("tie", Json.bool r.tie),
        ("trace", Json.arr (r.trace.map (fun p => Json.arr #[jOp p.1, jRat p.2])).toArray),
        ("score", jRat (totalScore s r.g)),
        ("start_score", jRat (totalScore s { g with edges := (g.edges ++ o.fixed).eraseDups })),
        ("acyclic", Json.bool (isAcyclicG r.g)),
        ("remaining", Json.arr ((legalOps s o [] r.g).map (fun p => Json.arr #[jOp p.1, jRat p.2])).toArray)])
  | "score_total" => some do
      let g ← getDG (← fld j "g")
      let s ← getTab (← fld j "scores")
      pure (jRat (totalScore s g))
  | "exh_best" => some do
      let nodes ← fldNats j "nodes"
      let s ← getTab (← fld j "scores")
      pure (Json.mkObj [("best", jRat (bestScore s nodes)), ("ndags", jNat (allDags nodes).length)])
  | "tree_spec" => some do
      -- maximum weight of a spanning tree (brute force) and BFS orientation of a given tree
      let nodes ← fldNats j "nodes"
      let wedges ← getList (fun e => do
        let a ← e.getArr?
        match a.toList with
        | [u, v, w] => do pure ((← getNat u, ← getNat v), ← getRat w)
        | _ => .error "weighted edge expected") (← fld j "wedges")
      let cands := (subsets wedges).filter (fun es => es.length + 1 == nodes.length && connectedU nodes (es.map (·.1)))
      let best := maxR (cands.map (fun es => (es.map (·.2)).sum))
      let tree ← fldPairs j "tree"
      let root ← fldNat j "root"
      pure (Json.mkObj [("best", jRat best), ("oriented", jPairs (orientFrom nodes tree root))])
  | _ => none

end PgmVerif.Drv
