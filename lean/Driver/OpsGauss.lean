/- Driver/OpsGauss.lean — linear-Gaussian ops (C20) -/
import Driver.Json
import PgmVerif.Model.Gauss
open Lean PgmVerif PgmVerif.Drv
namespace PgmVerif.Drv

def getMat (j : Json) : Except String Mat := getList getRats j
def jMat (m : Mat) : Json := Json.arr (m.map jRats).toArray
def isIdent (m : Mat) : Bool := m == Mat.ident m.rows

def handleGauss (op : String) (j : Json) : Option (Except String Json) :=
  match op with
  | "lg_joint" => some do
      let g : LGBN := { n := (← fldNat j "n"), b0 := (← fldRats j "b0"), coef := (← getMat (← fld j "coef")), var := (← fldRats j "var") }
      match g.cov with
      | none => .error "singular"
      | some c => pure (Json.mkObj [("mean", jRats g.means), ("cov", jMat c)])
  | "gauss_condition" => some do
      let mean ← fldRats j "mean"; let cov ← getMat (← fld j "cov")
      let a ← fldNats j "a"; let b ← fldNats j "b"; let xb ← fldRats j "xb"
      match gaussCondition mean cov a b xb with
      | none => .error "singular"
      | some (m, c) =>
        -- the model validates its own inverse on every call
        let sbb := cov.sub2 b b
        let okInv := match sbb.inverse with | some i => isIdent (sbb.mul i) | none => false
        pure (Json.mkObj [("mean", jRats m), ("cov", jMat c), ("inv_ok", Json.bool okInv)])
  | "mat_inverse" => some do
      let a ← getMat (← fld j "a")
      match a.inverse with
      | none => pure Json.null
      | some i => pure (Json.mkObj [("inv", jMat i), ("ok", Json.bool (isIdent (a.mul i)))])
  | "ols" => some do
      let xs ← getMat (← fld j "xs"); let ys ← fldRats j "ys"
      match ols xs ys with
      | none => pure Json.null
      | some (b, rss) => pure (Json.mkObj [("beta", jRats b), ("rss", jRat rss)])
  | _ => none

end PgmVerif.Drv
