/- Driver/OpsGraph.lean — graph / d-separation ops (C08, C12, C13, C18) -/
import Driver.Json
import PgmVerif.Model.Graph
import PgmVerif.Model.Causal
open Lean PgmVerif PgmVerif.Drv
namespace PgmVerif.Drv

def getDG (j : Json) : Except String DG := do
  pure { nodes := (← fldNats j "nodes"), edges := (← fldPairs j "edges") }

def sortNats (l : List Nat) : List Nat := (l.toArray.qsort (· < ·)).toList

def handleGraph (op : String) (j : Json) : Option (Except String Json) :=
  match op with
  | "g_active" => some do
      let g ← getDG (← fld j "g"); let obs ← fldNats j "obs"; let x ← fldNat j "x"
      pure (Json.mkObj [("algo", jNats (sortNats (g.activeNodes obs x))),
                        ("spec", jNats (sortNats (g.activeSpec obs x)))])
  | "g_active_all" => some do
      -- every start node, one observed set
      let g ← getDG (← fld j "g"); let obs ← fldNats j "obs"
      pure (Json.arr (g.nodes.map (fun x => Json.mkObj [("x", jNat x),
        ("algo", jNats (sortNats (g.activeNodes obs x))),
        ("spec", jNats (sortNats (g.activeSpec obs x)))])).toArray)
  | "g_ancestors" => some do
      let g ← getDG (← fld j "g"); let zs ← fldNats j "zs"
      pure (jNats (sortNats (g.ancestorsOf zs)))
  | "g_descendants" => some do
      let g ← getDG (← fld j "g"); let zs ← fldNats j "zs"
      pure (jNats (sortNats (g.descendantsOf zs)))
  | "g_blanket" => some do
      let g ← getDG (← fld j "g"); let v ← fldNat j "v"
      pure (jNats (sortNats (g.markovBlanket v)))
  | "g_moral" => some do
      let g ← getDG (← fld j "g")
      pure (jPairs (g.moralEdges))
  | "g_dsep" => some do
      let g ← getDG (← fld j "g"); let obs ← fldNats j "obs"; let x ← fldNat j "x"; let y ← fldNat j "y"
      pure (Json.bool ((g.activeSpec obs x).contains y))
  | "g_mindsep" => some do
      let g ← getDG (← fld j "g"); let lat ← fldNats j "latents"; let x ← fldNat j "x"; let y ← fldNat j "y"
      match g.minimalDsep lat x y with
      | none => pure Json.null
      | some s => pure (jNats (sortNats s))
  | "causal_criteria" => some do
      let g ← getDG (← fld j "g"); let x ← fldNat j "x"; let y ← fldNat j "y"; let zs ← fldNats j "zs"
      pure (Json.mkObj [("backdoor", Json.bool (g.backdoorOK x y zs)), ("blocks", Json.bool (g.blocksBackdoor x y zs)),
                        ("frontdoor", Json.bool (g.frontdoorOK x y zs))])
  | _ => none

end PgmVerif.Drv
