/- Driver/OpsJT.lean — chordality / clique tree / max-marginal ops (C02, C14) -/
import Driver.OpsGraph
import PgmVerif.Model.JTree
open Lean PgmVerif PgmVerif.Drv
namespace PgmVerif.Drv

def handleJT (op : String) (j : Json) : Option (Except String Json) :=
  match op with
  | "ug_check" => some do
      let nodes ← fldNats j "nodes"; let edges ← fldPairs j "edges"; let orig ← fldPairs j "orig"
      let g : UG := { nodes := nodes, edges := edges }
      let sup := orig.all (fun e => g.adj e.1 e.2)
      pure (Json.mkObj [("chordal", Json.bool g.isChordal), ("supergraph", Json.bool sup),
                        ("connected", Json.bool g.connected)])
  | "ug_eliminate" => some do
      let nodes ← fldNats j "nodes"; let edges ← fldPairs j "edges"; let order ← fldNats j "order"
      let g : UG := { nodes := nodes, edges := edges }
      pure (jPairs (g.eliminate order))
  | "jt_check" => some do
      let cliques ← getList getNats (← fld j "cliques")
      let edges ← fldPairs j "edges"
      let scopes ← getList getNats (← fld j "scopes")
      let t : CTree := { cliques := cliques, edges := edges }
      pure (Json.mkObj [("tree", Json.bool t.isTree), ("rip", Json.bool t.rip),
                        ("covers", Json.bool (t.covers scopes)), ("sepsets", Json.bool t.sepsetsNonempty)])
  | "max_marginal" => some do
      let fs ← fldFactors j "fs"; let vars ← fldNats j "vars"; let cards ← fldNats j "cards"
      let q ← fldNats j "q"
      let jt := jointTable fs vars cards
      let m := (jt.maximize (vars.filter (fun v => !q.contains v))).permuteAxes q
      pure (jFactor m)
  | _ => none

end PgmVerif.Drv
