/- Driver/OpsIndep.lean — independence ops (C18) -/
import Driver.OpsGraph
import PgmVerif.Model.Indep
open Lean PgmVerif PgmVerif.Drv
namespace PgmVerif.Drv

def getIA (j : Json) : Except String IA := do
  let l ← getList getNats j
  match l with
  | [x, y, z] => pure (IA.mk' x y z)
  | _ => .error "assertion = [X, Y, Z]"

def jIA (a : IA) : Json := Json.arr #[jNats a.x, jNats a.y, jNats a.z]

def handleIndep (op : String) (j : Json) : Option (Except String Json) :=
  match op with
  | "sg_closure" => some do
      let s ← getList getIA (← fld j "assertions")
      let c := sgClosure 4096 (s.filter IA.valid)
      pure (Json.mkObj [("assertions", Json.arr (c.map jIA).toArray), ("fixpoint", Json.bool (sgNew c).isEmpty)])
  | "sg_entails" => some do
      let s ← getList getIA (← fld j "s"); let t ← getList getIA (← fld j "t")
      pure (Json.bool (entails 4096 s t))
  | "iequiv" => some do
      let g ← getDG (← fld j "g"); let h ← getDG (← fld j "h")
      pure (Json.bool (iEquivalent g h))
  | "vstructures" => some do
      let g ← getDG (← fld j "g")
      pure (Json.arr ((vStructures g).map (fun t => Json.arr #[Json.num t.1, Json.num t.2.1, Json.num t.2.2])).toArray)
  | "ci_holds" => some do
      let p ← fldFactor j "p"
      pure (Json.bool (ciHolds p (← fldNats j "x") (← fldNats j "y") (← fldNats j "z")))
  | _ => none

end PgmVerif.Drv
