/- Driver/OpsLearn.lean — parameter learning ops (C06) -/
import Driver.Json
import PgmVerif.Model.Learn
open Lean PgmVerif PgmVerif.Drv
namespace PgmVerif.Drv

def getData (j : Json) : Except String Data := do
  let rows ← getList getNats (← fld j "rows")
  let ws ← match fldOpt j "weights" with
    | some (Json.arr a) => a.toList.mapM getRat
    | _ => pure (rows.map (fun _ => (1 : Rat)))
  pure (rows.zip ws)

def cardFn (cards : List Nat) : Var → Nat := fun v => cards.getD v 1

def handleLearn (op : String) (j : Json) : Option (Except String Json) :=
  match op with
  | "learn" => some do
      let data ← getData j
      let K := cardFn (← fldNats j "cards")
      let child ← fldNat j "child"; let parents ← fldNats j "parents"
      let kind ← fldStr j "kind"
      let cnt := countsTable data K child parents
      let f ← match kind with
        | "counts" => pure cnt
        | "mle" => pure (mle data K child parents)
        | "k2" => pure (bayesK2 data K child parents)
        | "bdeu" => do pure (bayesBDeu data K child parents (← fldRat j "ess"))
        | "dirichlet" => do pure (bayesDirichlet data K child parents (← fldFactor j "pseudo"))
        | "fit_update" => do pure (fitUpdate data K child parents (← fldFactor j "prev") (← fldRat j "nprev"))
        | _ => .error s!"bad kind {kind}"
      pure (jFactor f)
  | _ => none

end PgmVerif.Drv
