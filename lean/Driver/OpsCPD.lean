/- Driver/OpsCPD.lean — ops for TabularCPD and check_model (C05) -/
import Driver.Json
import PgmVerif.Model.CPD
open Lean PgmVerif PgmVerif.Drv
namespace PgmVerif.Drv

def jTable (t : List (List Rat)) : Json := Json.arr (t.map jRats).toArray

def getNodeSpec (j : Json) : Except String NodeSpec := do
  let node ← fldNat j "node"
  let gp ← fldNats j "gparents"
  let cpd ← match fldOpt j "cpd" with
    | some Json.null => pure none
    | some c => do pure (some (← getFactor c))
    | none => pure none
  let labels ← getList getNats (← fld j "labels")
  pure { node := node, graphParents := gp, cpd := cpd, labels := labels }

def errName : CheckErr → String
  | .noCpd => "noCpd" | .parents => "parents" | .invalid => "invalid" | .card => "card" | .names => "names"

def handleCPD (op : String) (j : Json) : Option (Except String Json) :=
  match op with
  | "cpd_of_table" => some do
      let child ← fldNat j "child"; let parents ← fldNats j "parents"
      let ccard ← fldNat j "ccard"; let pcards ← fldNats j "pcards"
      let table ← getList getRats (← fld j "table")
      let f := CPD.ofTable child parents ccard pcards table
      pure (Json.mkObj [("f", jFactor f), ("values", jTable (CPD.getValues f))])
  | "cpd_values" => some do
      pure (jTable (CPD.getValues (← fldFactor j "f")))
  | "cpd_reorder" => some do
      let f := CPD.reorderParents (← fldFactor j "f") (← fldNats j "order")
      pure (Json.mkObj [("f", jFactor f), ("values", jTable (CPD.getValues f))])
  | "cpd_marginalize" => some do
      let f0 ← fldFactor j "f"; let ps ← fldNats j "vars"
      let f := CPD.marginalize f0 ps
      pure (Json.mkObj [("f", jFactor f), ("values", jTable (CPD.getValues f)),
        ("zero", Json.bool (CPD.zeroColumns (f0.marginalize ps)))])
  | "cpd_reduce" => some do
      let f0 ← fldFactor j "f"; let ev ← fldPairs j "ev"
      let f := CPD.reduce f0 ev
      pure (Json.mkObj [("f", jFactor f), ("values", jTable (CPD.getValues f)),
        ("zero", Json.bool (CPD.zeroColumns (f0.reduce ev)))])
  | "cpd_normalize" => some do
      let f0 ← fldFactor j "f"
      let f := CPD.colNormalize f0
      pure (Json.mkObj [("f", jFactor f), ("values", jTable (CPD.getValues f)),
        ("zero", Json.bool (CPD.zeroColumns f0))])
  | "cpd_valid" => some do
      pure (Json.bool (CPD.isValid (← fldRat j "tol") (← fldFactor j "f")))
  | "check_model" => some do
      let ns ← getList getNodeSpec (← fld j "nodes")
      let tol ← fldRat j "tol"
      match checkModel tol ns with
      | none => pure (Json.str "ok")
      | some e => pure (Json.str (errName e))
  | _ => none

end PgmVerif.Drv
