/- Driver/OpsDBN.lean — DBN unrolling (C17) -/
import Driver.Json
import PgmVerif.Model.DBN
open Lean PgmVerif PgmVerif.Drv
namespace PgmVerif.Drv

def handleDBN (op : String) (j : Json) : Option (Except String Json) :=
  match op with
  | "dbn_posterior" => some do
      let tm : DBNTemplate := { k := (← fldNat j "k"), cpd0 := (← fldFactors j "cpd0"), cpd1 := (← fldFactors j "cpd1") }
      let (post, pe) := tm.posterior (← fldNats j "cards") (← fldNat j "T") (← fldNats j "q") (← fldPairs j "ev")
      pure (Json.mkObj [("post", jFactor post), ("pe", jRat pe)])
  | _ => none

end PgmVerif.Drv
