/- Driver/OpsScore.lean — structure scores and cache ops (C10) -/
import Driver.OpsLearn
import PgmVerif.Model.Score
open Lean PgmVerif PgmVerif.Drv
namespace PgmVerif.Drv

def handleScore (op : String) (j : Json) : Option (Except String Json) :=
  match op with
  | "score_local" => some do
      let data ← getData j
      let cards ← fldNats j "cards"
      let K := cardFn cards
      let child ← fldNat j "child"; let parents ← fldNats j "parents"
      let kind ← fldStr j "kind"
      let cols := localCounts data K child parents
      let r := K child
      let n := data.length
      let (R, c, pen) ← match kind with
        | "k2" => pure (k2Exp r cols, (0 : Rat), (0 : Rat))
        | "bdeu" => do pure (bdeuExp (← fldRat j "ess") r cols, (0 : Rat), (0 : Rat))
        | "bds" => do pure (bdsExp (← fldRat j "ess") r cols, (0 : Rat), (0 : Rat))
        | "bic" => pure (llExp cols, ((nParams r cols : Nat) : Rat) / 2, (0 : Rat))
        | "aic" => pure (llExp cols, (0 : Rat), ((nParams r cols : Nat) : Rat))
        | _ => .error s!"bad score {kind}"
      pure (Json.mkObj [("R", jRat R), ("c", jRat c), ("N", jNat n), ("pen", jRat pen),
        ("cols", Json.arr (cols.map jNats).toArray)])
  | "lru_run" => some do
      -- keys are natural numbers, the cached function is k ↦ table[k]
      let table ← fldNats j "table"
      let keys ← fldNats j "keys"
      let m ← fldNat j "max_size"
      let (c, vs) := LRU.run (fun k => table.getD k 0) { maxSize := m, entries := ([] : List (Nat × Nat)) } keys
      pure (Json.mkObj [("values", jNats vs), ("entries", jPairs c.entries)])
  | _ => none

end PgmVerif.Drv
