/- Driver/OpsPC.lean — CPDAG / PDAG extension ops (C12) -/
import Driver.OpsGraph
import PgmVerif.Model.PDAG
open Lean PgmVerif PgmVerif.Drv
namespace PgmVerif.Drv

def getPD (j : Json) : Except String PD := do
  pure { nodes := (← fldNats j "nodes"), directed := (← fldPairs j "directed"),
         undirected := ((← fldPairs j "undirected").map normPair).eraseDups }

def handlePC (op : String) (j : Json) : Option (Except String Json) :=
  match op with
  | "cpdag_spec" => some do
      let g ← getDG (← fld j "g")
      let p := cpdagSpec g
      pure (Json.mkObj [("directed", jPairs p.directed), ("undirected", jPairs p.undirected),
        ("skeleton", jPairs (skeleton g)), ("class_size", jNat (markovClass g).length)])
  | "pd_check" => some do
      let p ← getPD (← fld j "p")
      let d ← getDG (← fld j "d")
      pure (Json.mkObj [("extension", Json.bool (p.isExtension d)), ("extendable", Json.bool p.extendable),
        ("acyclic", Json.bool (isAcyclicG d)),
        ("model_todag", match p.toDag with | some es => jPairs es | none => Json.null)])
  | _ => none

end PgmVerif.Drv
