/- Driver/OpsFactor.lean — ops for factors, joint/posterior, VE -/
import Driver.Json
import PgmVerif.Model.VE
open Lean PgmVerif PgmVerif.Drv
namespace PgmVerif.Drv

def handleFactor (op : String) (j : Json) : Option (Except String Json) :=
  match op with
  | "ping" => some (pure (Json.mkObj [("pong", Json.bool true)]))
  | "ravel" => some do
      let cs ← fldNats j "card"; let is ← fldNats j "idx"
      pure (Json.mkObj [("r", jNat (ravel cs is))])
  | "unravel" => some do
      let cs ← fldNats j "card"; let n ← fldNat j "n"
      pure (Json.mkObj [("r", jNats (unravel cs n))])
  | "f_product" => some do
      pure (jFactor (Factor.product (← fldFactor j "f") (← fldFactor j "g")))
  | "f_add" => some do
      pure (jFactor (Factor.add (← fldFactor j "f") (← fldFactor j "g")))
  | "f_divide" => some do
      let f ← fldFactor j "f"; let g ← fldFactor j "g"
      pure (Json.mkObj [("r", jFactor (Factor.divide f g)), ("inf", jNats (Factor.divInf f g))])
  | "f_marginalize" => some do
      pure (jFactor (Factor.marginalize (← fldFactor j "f") (← fldNats j "vars")))
  | "f_maximize" => some do
      pure (jFactor (Factor.maximize (← fldFactor j "f") (← fldNats j "vars")))
  | "f_reduce" => some do
      pure (jFactor (Factor.reduce (← fldFactor j "f") (← fldPairs j "ev")))
  | "f_normalize" => some do
      pure (jFactor (Factor.normalize (← fldFactor j "f")))
  | "f_permute" => some do
      pure (jFactor (Factor.permuteAxes (← fldFactor j "f") (← fldNats j "scope")))
  | "bn_posterior" => some do
      let fs ← fldFactors j "fs"; let vars ← fldNats j "vars"; let cards ← fldNats j "cards"
      let q ← fldNats j "q"; let ev ← fldPairs j "ev"
      let pu := posteriorU fs vars cards q ev
      pure (Json.mkObj [("post", jFactor pu.normalize), ("pe", jRat pu.total)])
  | "bn_joint" => some do
      let fs ← fldFactors j "fs"; let vars ← fldNats j "vars"; let cards ← fldNats j "cards"
      pure (jFactor (jointTable fs vars cards))
  | "ve_query" => some do
      let fs ← fldFactors j "fs"; let q ← fldNats j "q"; let ev ← fldPairs j "ev"
      let order ← fldNats j "order"
      pure (jFactor (veQuery fs q ev order))
  | _ => none


end PgmVerif.Drv
