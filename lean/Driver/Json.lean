/- Driver/Json.lean — JSON helpers for the line protocol (rationals travel as "p/q" strings). -/
import Lean.Data.Json
import PgmVerif.Model.Factor
open Lean
namespace PgmVerif.Drv

def parseRat (s : String) : Except String Rat :=
  match s.splitOn "/" with
  | [p] => match p.toInt? with
    | some n => .ok (n : Rat)
    | none => .error s!"bad rat {s}"
  | [p, q] => match p.toInt?, q.toNat? with
    | some n, some d => if d = 0 then .error "zero den" else .ok ((n : Rat) / (d : Rat))
    | _, _ => .error s!"bad rat {s}"
  | _ => .error s!"bad rat {s}"

def ratStr (r : Rat) : String :=
  if r.den = 1 then toString r.num else s!"{r.num}/{r.den}"

def jRat (r : Rat) : Json := Json.str (ratStr r)
def jNat (n : Nat) : Json := Json.num (JsonNumber.fromNat n)
def jNats (l : List Nat) : Json := Json.arr (l.map jNat).toArray
def jRats (l : List Rat) : Json := Json.arr (l.map jRat).toArray
def jPairs (l : List (Nat × Nat)) : Json := Json.arr (l.map (fun p => jNats [p.1, p.2])).toArray

def getNat (j : Json) : Except String Nat := j.getNat?
def getNats (j : Json) : Except String (List Nat) := do
  let a ← j.getArr?
  a.toList.mapM getNat
def getRat (j : Json) : Except String Rat := do
  match j with
  | Json.str s => parseRat s
  | Json.num n => if n.exponent = 0 then .ok (n.mantissa : Rat) else .error "non-integer json number"
  | _ => .error "rat expected"
def getRats (j : Json) : Except String (List Rat) := do
  let a ← j.getArr?
  a.toList.mapM getRat
def getPairs (j : Json) : Except String (List (Nat × Nat)) := do
  let a ← j.getArr?
  a.toList.mapM (fun p => do
    let l ← getNats p
    match l with
    | [x, y] => pure (x, y)
    | _ => .error "pair expected")
def getList {α} (f : Json → Except String α) (j : Json) : Except String (List α) := do
  let a ← j.getArr?
  a.toList.mapM f

def fld (j : Json) (k : String) : Except String Json := j.getObjVal? k
def fldNat (j : Json) (k : String) : Except String Nat := do getNat (← fld j k)
def fldNats (j : Json) (k : String) : Except String (List Nat) := do getNats (← fld j k)
def fldRat (j : Json) (k : String) : Except String Rat := do getRat (← fld j k)
def fldRats (j : Json) (k : String) : Except String (List Rat) := do getRats (← fld j k)
def fldPairs (j : Json) (k : String) : Except String (List (Nat × Nat)) := do getPairs (← fld j k)
def fldStr (j : Json) (k : String) : Except String String := do (← fld j k).getStr?
def fldBool (j : Json) (k : String) : Except String Bool := do (← fld j k).getBool?
def fldOpt (j : Json) (k : String) : Option Json := (j.getObjVal? k).toOption

def getFactor (j : Json) : Except String Factor := do
  let scope ← fldNats j "scope"
  let card ← fldNats j "card"
  let vals ← fldRats j "vals"
  if vals.length ≠ card.prod then .error "factor size mismatch"
  else if scope.length ≠ card.length then .error "factor scope/card mismatch"
  else pure { scope := scope, card := card, vals := vals.toArray }
def fldFactor (j : Json) (k : String) : Except String Factor := do getFactor (← fld j k)
def fldFactors (j : Json) (k : String) : Except String (List Factor) := do getList getFactor (← fld j k)

def jFactor (f : Factor) : Json :=
  Json.mkObj [("scope", jNats f.scope), ("card", jNats f.card), ("vals", jRats f.vals.toList)]

end PgmVerif.Drv
