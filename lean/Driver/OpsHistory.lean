/- Driver/OpsHistory.lean — edit histories (C15) -/
import Driver.Json
import PgmVerif.Model.History
open Lean PgmVerif PgmVerif.Drv
namespace PgmVerif.Drv

def getBNOp (j : Json) : Except String BNOp := do
  let k ← fldStr j "k"
  match k with
  | "addNode" => pure (.addNode (← fldNat j "v") (← fldBool j "latent"))
  | "addEdge" => pure (.addEdge (← fldNat j "u") (← fldNat j "v"))
  | "removeNode" => pure (.removeNode (← fldNat j "v"))
  | "addCpd" => pure (.addCpd (← fldFactor j "f"))
  | "removeCpd" => pure (.removeCpd (← fldNat j "v"))
  | "do" => pure (.doOp (← fldNats j "vs"))
  | _ => .error s!"bad op {k}"

def getBNState (j : Json) : Except String BNState := do
  pure { nodes := (← fldNats j "nodes"), edges := (← fldPairs j "edges"),
         latents := (← fldNats j "latents"), cpds := (← fldFactors j "cpds") }

def jBNState (s : BNState) : Json :=
  Json.mkObj [("nodes", jNats s.nodes), ("edges", jPairs s.edges), ("latents", jNats s.latents),
              ("cpds", Json.arr (s.cpds.map jFactor).toArray)]

def handleHistory (op : String) (j : Json) : Option (Except String Json) :=
  match op with
  | "bn_step" => some do
      let s ← getBNState (← fld j "state"); let o ← getBNOp (← fld j "bnop")
      let (s', out) := s.step o
      pure (Json.mkObj [("state", jBNState s'), ("out", Json.str (if out == Out.ok then "ok" else "err"))])
  | _ => none

end PgmVerif.Drv
